package main

import (
	"encoding/json"
	"fmt"
	"os"
)

type siteInfo struct {
	ID   int    `json:"id"`
	File string `json:"file"`
	Line int    `json:"line"`
	Func string `json:"func"`
}

var sitesTable []siteInfo

func loadSites(path string) {
	if path == "" {
		path = os.Getenv("SIMCHECK_SITES")
	}
	if path == "" {
		return
	}
	b, err := os.ReadFile(path)
	if err != nil {
		return
	}
	json.Unmarshal(b, &sitesTable)
}

var sitesTried bool

func siteName(id uint32) string {
	if sitesTable == nil && !sitesTried {
		// workers do not parse the table at start-up (it costs more than a hundred runs); it is
		// loaded the first time a trace needs a name
		sitesTried = true
		loadSites("")
	}
	if int(id) < len(sitesTable) {
		s := sitesTable[id]
		if s.Line == 0 {
			return s.File
		}
		return fmt.Sprintf("%s:%d(%s)", s.File, s.Line, s.Func)
	}
	return fmt.Sprintf("site#%d", id)
}
