module verifsim

go 1.24.2

require (
	github.com/anishathalye/porcupine v1.3.0
	github.com/xinchentechnote/fin-proto-go v0.0.0
)

replace github.com/xinchentechnote/fin-proto-go => ../repo
