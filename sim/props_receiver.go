package main

import (
	"bytes"
	"fmt"
	"reflect"
	"runtime"
)

// validMessage generates a canonical message and its encoding into a fresh buffer.
// post is the sender's object after Encode (computed fields filled in by the encoder).
type sent struct {
	name string
	pre  any // clone taken before the library touched the object
	post any
	w    []byte
}

func genSent(c *RunCtx, g *Gen, name string) (*sent, bool) {
	m := g.Value(name)
	s := &sent{name: name, pre: Clone(m), post: m}
	var b bytes.Buffer
	r := tryEncode(m, &b)
	if r.Err != nil || r.Panic != nil {
		c.Probe("skip.encode-failed")
		return nil, false
	}
	s.w = cloneBytes(b.Bytes())
	recycleBuf(&b) // the harness's own scratch buffers are pooled too: whatever the library kept of this one is now junk
	return s, true
}

// recycleBuf is what a buffer pool does with a buffer its owner is done with: the storage is
// overwritten (here: every byte up to the capacity) and the buffer emptied.
func recycleBuf(b *bytes.Buffer) {
	x := b.Bytes()
	x = x[:cap(x)]
	for i := range x {
		x[i] = 0xA5
	}
	b.Reset()
}

// expected is what a receiver must obtain: the original value, with the frame's
// self-computed fields as the encoder put them on the wire.
func (s *sent) expected() any {
	e := Clone(s.pre)
	if g := frameGeoms[s.name]; g != nil && g.Computed {
		frameField(e, g.LenField).Set(frameField(s.post, g.LenField))
		if g.Algo != "" {
			frameField(e, g.SumField).Set(frameField(s.post, g.SumField))
		}
	}
	return e
}

// ---------------------------------------------------------------- receive-buffer shapes (buffer pool)
//
// A decoder is handed a *bytes.Buffer, and how that buffer sits in memory is history the
// caller's buffer pool decides: exactly sized; with a few consumed bytes in front and some
// spare capacity behind; or a slice of a long-lived 16 MiB receive arena, so that the unread
// bytes are followed by megabytes of spare capacity holding stale data.

var arena []byte
var arenaDirty int

const arenaStale = 0xEE

type bufShape struct {
	kind  int // 0 exact, 1 small lead/slack, 2 arena
	lead  int
	slack int
}

func drawBufShape(t *Tape) bufShape {
	switch t.Intn(8) {
	case 0, 1, 2, 3:
		return bufShape{}
	case 4:
		return bufShape{kind: 1, lead: 3, slack: 1}
	case 5:
		return bufShape{kind: 1, lead: 64, slack: 4096}
	case 6:
		return bufShape{kind: 2}
	default:
		return bufShape{kind: 2, lead: 17}
	}
}

func (sh bufShape) String() string {
	switch sh.kind {
	case 0:
		return "exactly-sized buffer"
	case 1:
		return fmt.Sprintf("buffer with %d consumed bytes in front and %d bytes spare capacity", sh.lead, sh.slack)
	}
	return fmt.Sprintf("buffer carved from a 16 MiB receive arena (%d consumed bytes in front, megabytes of stale spare capacity behind)", sh.lead)
}

// build places w in a buffer of this shape.  The returned buffer's unread bytes are a private
// copy of w in every case.
func (sh bufShape) build(c *RunCtx, w []byte) *bytes.Buffer {
	switch {
	case sh.kind == 1:
		arr := make([]byte, sh.lead+len(w), sh.lead+len(w)+sh.slack)
		for i := 0; i < sh.lead; i++ {
			arr[i] = arenaStale
		}
		copy(arr[sh.lead:], w)
		full := arr[:cap(arr)]
		for i := len(arr); i < len(full); i++ {
			full[i] = arenaStale
		}
		buf := bytes.NewBuffer(arr)
		buf.Next(sh.lead)
		c.Fire("pool.shape")
		return buf
	case sh.kind == 2 && sh.lead+len(w) <= 4<<20:
		if arena == nil {
			arena = make([]byte, 16<<20)
			for i := range arena {
				arena[i] = arenaStale
			}
		}
		for i := 0; i < arenaDirty; i++ {
			arena[i] = arenaStale
		}
		n := sh.lead + len(w)
		copy(arena[sh.lead:], w)
		arenaDirty = n
		buf := bytes.NewBuffer(arena[:n])
		buf.Next(sh.lead)
		c.Fire("pool.bigcap")
		return buf
	}
	return bytes.NewBuffer(cloneBytes(w))
}

// ---------------------------------------------------------------- C07

func init() {
	register(&scenario{
		Prop: "C07", Run: runC07, Level: "exploration", Quick: 150000, Thorough: 4000000,
		Rule:        "one run = either (direct) one canonical message of one of the 170 types followed by seeded trailing bytes, decoded once; or (same buffer) 1-8 messages of mixed types encoded back to back into ONE buffer (optionally behind already-consumed bytes, with seeded capacity slack and trailing bytes) and recovered by successive decodes from that same buffer object, so decodes start at non-zero read offsets; or (pipeline) 1-3 simulated connections, each carrying 1-8 canonical messages of mixed types encoded back to back into one send buffer, delivered by the simulated wire in seeded segments (all at once / 1-byte dribble / random sizes / cuts at field boundaries) with connections interleaved, to a receiver running the accumulate-and-try-decode loop on private copies. Oracles: decode consumes exactly the message's bytes, the rest is untouched and unread; delivered sequence deep-equals the sent sequence (exactly once, in order); connection buffer ends empty. Fault-free configuration (segmentation only). Non-trivial = trailing bytes / segmentation / batching actually occurred and an oracle ran; distinct = distinct run fingerprints.",
		Assumptions: []string{"values canonical w.r.t. the pinned schema", "self-computed frame fields are compared with what the encoder put on the wire (their correctness is C04/C05)"},
	})
}

func runC07(c *RunCtx) {
	t := c.T
	g := &Gen{t: t, cfg: drawCfg(t, c.Thorough)}
	switch t.Intn(4) {
	case 0:
		c07Direct(c, g)
	case 1:
		c07SameBuffer(c, g)
	default:
		c07Pipeline(c, g)
	}
}

// c07SameBuffer is the property's second sentence taken literally: n messages encoded one
// after another into ONE buffer (which may already have been partly consumed, and whose
// capacity may be tight) are recovered by n successive decodes from that same buffer object,
// so every decode but the first starts at a non-zero read offset.
func c07SameBuffer(c *RunCtx, g *Gen) {
	t := c.T
	n := 1 + t.Intn(8)
	lead := []int{0, 0, 1, 7, 64, 300}[t.Intn(6)]
	if t.Chance(1, 16) {
		lead = 65530 + t.Intn(70000) // read offsets beyond what 16 bits can index
	}
	var wire bytes.Buffer
	wire.Write(noise(t, lead))
	var sents []*sent
	for i := 0; i < n; i++ {
		name := pickType(t, 5)
		m := g.Value(name)
		s := &sent{name: name, pre: Clone(m), post: m}
		before := wire.Len()
		r := tryEncode(m, &wire)
		if r.Err != nil || r.Panic != nil {
			c.Probe("skip.encode-failed")
			return
		}
		s.w = cloneBytes(wire.Bytes()[before:])
		sents = append(sents, s)
		c.Count("type."+name, 1)
		if c.Tracing {
			c.LogValue(fmt.Sprintf("SEND #%d %s (%d bytes)", i, name, len(s.w)), s.pre)
		}
	}
	tail := noise(t, []int{0, 0, 1, 5, 40}[t.Intn(5)])
	wire.Write(tail)
	all := cloneBytes(wire.Bytes())
	slack := []int{0, 1, 64, 4096}[t.Intn(4)]
	arr := make([]byte, len(all), len(all)+slack)
	copy(arr, all)
	buf := bytes.NewBuffer(arr)
	buf.Next(lead)
	if lead > 0 {
		c.Fire("hist.consumed")
	}
	if n > 1 {
		c.Fire("hist.batch")
	}
	if len(tail) > 0 {
		c.Fire("hist.trailing")
	}
	off := lead
	reuse := t.Intn(2) == 1
	pool := map[string]any{}
	for i, s := range sents {
		recv := newValue(s.name)
		if reuse {
			if v, ok := pool[s.name]; ok {
				recv = v
				c.Fire("recv.dirty")
			} else {
				pool[s.name] = recv
			}
		}
		r := tryDecode(recv, buf)
		if r.Panic != nil {
			c.Fail("C07/panic", s.name, "decode #%d (%s) from the shared buffer at read offset %d panicked: %v", i, s.name, off, r.Panic)
			return
		}
		c.Oracle("accepts-own-encoding")
		if r.Err != nil {
			c.Fail("C07/rejected", s.name, "decode #%d of %d (%s, %d bytes) from one buffer holding the messages back to back returned %v (read offset %d)", i, n, s.name, len(s.w), r.Err, off)
			return
		}
		c.Oracle("consumes-exactly")
		want := all[off+len(s.w):]
		c.T.Observe(uint64(buf.Len()))
		if buf.Len() != len(want) {
			c.Fail("C07/consumed", s.name, "decode #%d (%s) from the shared buffer consumed %d bytes but the message is %d bytes", i, s.name, len(all)-off-buf.Len(), len(s.w))
			return
		}
		c.Oracle("rest-untouched")
		if !bytes.Equal(buf.Bytes(), want) {
			c.Fail("C07/rest-changed", s.name, "decode #%d (%s): the bytes after the message were altered", i, s.name)
			return
		}
		c.Oracle("delivered-equals-sent")
		if ok, d := Equal(s.expected(), recv); !ok {
			c.Fail("C07/delivered-differs", s.name, "message #%d (%s) decoded from the shared buffer at read offset %d differs from the message sent at %s", i, s.name, off, d)
			return
		}
		off += len(s.w)
	}
	c.Oracle("buffer-empty")
	if buf.Len() != len(tail) {
		c.Fail("C07/leftover", sents[len(sents)-1].name, "%d bytes left in the buffer after the last message, %d trailing bytes were appended", buf.Len(), len(tail))
	}
}

func c07Direct(c *RunCtx, g *Gen) {
	t := c.T
	name := pickType(t, 3)
	if t.Intn(30) == 0 {
		lateRegister(c, g, name)
	}
	// the whole exchange (sender and receiver) may run in a process with fewer checksum services
	// registered - the encoders support that, and what they emit then must still stream
	cfgDesc, restore := registryConfig(c, t)
	defer restore()
	if cfgDesc != "" {
		c.Logf("CONFIGURATION %s", cfgDesc)
	}
	s, ok := genSent(c, g, name)
	if !ok {
		return
	}
	c.Count("type."+name, 1)
	c.LogValue("MESSAGE "+name, s.pre)
	var trailing []byte
	switch t.Intn(5) {
	case 0:
	case 1:
		trailing = noise(t, 1+t.Intn(8))
	case 2:
		if s2, ok := genSent(c, g, pickType(t, 5)); ok {
			trailing = s2.w
		}
	case 3:
		trailing = cloneBytes(s.w) // the same message again
	default:
		trailing = noise(t, 1+t.Intn(300))
	}
	if len(trailing) > 0 {
		c.Fire("hist.trailing")
	}
	c.Logf("WIRE %s + %d trailing bytes %s", hexClip(s.w, 64), len(trailing), hexClip(trailing, 32))
	all := append(cloneBytes(s.w), trailing...)
	buf := bytes.NewBuffer(cloneBytes(all))
	recv := newValue(name)
	r := tryDecode(recv, buf)
	if r.Panic != nil {
		c.Fail("C07/panic", name, "Decode of a valid encoding followed by %d trailing bytes panicked: %v", len(trailing), r.Panic)
		return
	}
	c.Oracle("accepts-own-encoding")
	if r.Err != nil {
		if cfgDesc != "" {
			// sender and receiver both ran without a checksum service: a decoder that insists on
			// verifying may legitimately refuse; only a frame it ACCEPTS is judged below
			c.Probe("rejected-under-registry-configuration(inconclusive)")
			return
		}
		c.Fail("C07/rejected", name, "Decode of %s's own encoding (%d bytes, followed by %d trailing bytes) returned %v", name, len(s.w), len(trailing), r.Err)
		return
	}
	consumed := len(all) - buf.Len()
	c.T.Observe(uint64(consumed))
	c.Oracle("consumes-exactly")
	if consumed != len(s.w) {
		c.Fail("C07/consumed", name, "Decode of %s consumed %d bytes but the message is %d bytes (trailing %d)", name, consumed, len(s.w), len(trailing))
		return
	}
	c.Oracle("rest-untouched")
	if !bytes.Equal(buf.Bytes(), trailing) {
		c.Fail("C07/rest-changed", name, "bytes after the message were altered by Decode")
		return
	}
	c.Oracle("delivered-equals-sent")
	if ok, d := Equal(s.expected(), recv); !ok {
		c.Fail("C07/delivered-differs", name, "decoded %s differs from the message sent at %s", name, d)
	}
}

type conn struct {
	id       int
	sent     []*sent
	stream   []byte
	cuts     []int // segment end offsets
	nextSeg  int
	acc      []byte
	next     int // next expected message
	received []any
}

func c07Pipeline(c *RunCtx, g *Gen) {
	t := c.T
	nconn := 1 + t.Intn(3)
	var conns []*conn
	for ci := 0; ci < nconn; ci++ {
		cn := &conn{id: ci}
		n := 1 + t.Intn(8)
		var send bytes.Buffer
		for i := 0; i < n; i++ {
			name := pickType(t, 5)
			m := g.Value(name)
			if i > 0 && t.Intn(4) == 0 {
				// the next message on this connection is a close relative of the previous one (same
				// type, discriminator and numbers such as the sequence number; texts and lists cut or extended)
				prev := cn.sent[i-1]
				name = prev.name
				m = variantOf(prev.pre, t.Bulk())
				c.Probe("consecutive-relatives")
			}
			s := &sent{name: name, pre: Clone(m), post: m}
			before := send.Len()
			r := tryEncode(m, &send)
			if r.Err != nil || r.Panic != nil {
				c.Probe("skip.encode-failed")
				return
			}
			s.w = cloneBytes(send.Bytes()[before:])
			cn.sent = append(cn.sent, s)
			c.Count("type."+name, 1)
			if c.Tracing {
				c.LogValue(fmt.Sprintf("CONN %d SEND #%d %s (%d bytes)", ci, i, name, len(s.w)), s.pre)
			}
		}
		if n > 1 {
			c.Fire("hist.batch")
		}
		cn.stream = cloneBytes(send.Bytes())
		// segmentation
		L := len(cn.stream)
		// at most ~64 segments for long streams (every try-decode re-reads the accumulated bytes)
		step := 1 + L/64
		switch t.Intn(4) {
		case 0:
			cn.cuts = []int{L}
		case 1:
			if L <= 600 {
				for k := 1; k <= L; k++ {
					cn.cuts = append(cn.cuts, k)
				}
			} else {
				for k := 0; k < L; {
					k += 1 + t.Intn(2*step)
					cn.cuts = append(cn.cuts, min(k, L))
				}
			}
		case 2:
			for k := 0; k < L; {
				if L <= 2048 {
					k += 1 + t.Intn(64)
				} else {
					k += 1 + t.Intn(2*step)
				}
				cn.cuts = append(cn.cuts, min(k, L))
			}
		default:
			// cuts aimed at field boundaries +-1 of the first messages
			off := 0
			var marks []int
			for _, s := range cn.sent {
				spans, total := Layout(s.post)
				if total == len(s.w) {
					for _, sp := range spans {
						if t.Intn(3) == 0 && len(marks) < 64 {
							marks = append(marks, off+sp.Off+sp.Len-1+t.Intn(3))
						}
					}
				}
				off += len(s.w)
			}
			last := 0
			for _, mk := range marks {
				if mk > last && mk < L {
					cn.cuts = append(cn.cuts, mk)
					last = mk
				}
			}
			cn.cuts = append(cn.cuts, L)
		}
		if L == 0 {
			cn.cuts = nil
		}
		if len(cn.cuts) > 1 {
			c.Fire("net.segment")
		}
		conns = append(conns, cn)
	}
	if nconn > 1 {
		c.Probe("connections-interleaved")
	}
	// receive loops keep one message object per type and decode into it again and again -
	// including after a failed attempt on a partial frame
	reuse := t.Intn(2) == 1
	pool := map[string]any{}
	receiver := func(cn *conn, name string) any {
		if !reuse {
			return newValue(name)
		}
		k := fmt.Sprintf("%d/%s", cn.id, name)
		if v, ok := pool[k]; ok {
			c.Fire("recv.dirty")
			return v
		}
		v := newValue(name)
		pool[k] = v
		return v
	}
	// delivered messages that the application keeps (fresh-receiver mode): each with a deep copy
	// taken at delivery; later decodes must not change them
	type kept struct {
		obj, snap any
		name      string
		conn, i   int
	}
	var keep []kept
	deliver := func(cn *conn) {
		// try-decode loop on private copies of the accumulated bytes
		for cn.next < len(cn.sent) {
			exp := cn.sent[cn.next]
			private := cloneBytes(cn.acc)
			buf := bytes.NewBuffer(private)
			recv := receiver(cn, exp.name)
			r := tryDecode(recv, buf)
			if r.Panic != nil {
				c.Fail("C07/panic", exp.name, "conn %d: try-decode of %s on %d accumulated bytes panicked: %v", cn.id, exp.name, len(cn.acc), r.Panic)
				return
			}
			if r.Err != nil {
				c.Probe("try-decode-needs-more")
				return
			}
			consumed := len(cn.acc) - buf.Len()
			c.Oracle("rest-untouched")
			if consumed < 0 || consumed > len(cn.acc) || !bytes.Equal(buf.Bytes(), cn.acc[consumed:]) {
				c.Fail("C07/rest-changed", exp.name, "conn %d: after decoding %s the unread bytes are not the bytes that followed the message", cn.id, exp.name)
				return
			}
			c.T.Observe(uint64(consumed))
			c.Oracle("delivered-equals-sent")
			if ok, d := Equal(exp.expected(), recv); !ok {
				c.Fail("C07/delivered-differs", exp.name, "conn %d message #%d (%s): delivered after %d of %d stream bytes had arrived, consuming %d bytes (message is %d bytes); differs from the message sent at %s", cn.id, cn.next, exp.name, len(cn.acc), len(cn.stream), consumed, len(exp.w), d)
				return
			}
			c.Oracle("consumes-exactly")
			if consumed != len(exp.w) {
				c.Fail("C07/consumed", exp.name, "conn %d message #%d (%s): decode consumed %d bytes but the message is %d bytes", cn.id, cn.next, exp.name, consumed, len(exp.w))
				return
			}
			if !reuse && len(keep) < 16 {
				keep = append(keep, kept{recv, Clone(recv), exp.name, cn.id, cn.next})
			}
			cn.acc = cn.acc[consumed:]
			cn.next++
		}
	}
	for {
		var live []*conn
		for _, cn := range conns {
			if cn.nextSeg < len(cn.cuts) {
				live = append(live, cn)
			}
		}
		if len(live) == 0 {
			break
		}
		cn := live[t.Intn(len(live))]
		from := 0
		if cn.nextSeg > 0 {
			from = cn.cuts[cn.nextSeg-1]
		}
		to := cn.cuts[cn.nextSeg]
		cn.nextSeg++
		cn.acc = append(cn.acc, cn.stream[from:to]...)
		deliver(cn)
	}
	for _, cn := range conns {
		deliver(cn) // messages with empty encodings need no bytes
		c.Oracle("all-recovered")
		if cn.next != len(cn.sent) {
			c.Fail("C07/not-recovered", cn.sent[cn.next].name, "conn %d: after the whole stream (%d bytes) arrived only %d of %d messages were recovered; message #%d (%s) is rejected with %d bytes accumulated", cn.id, len(cn.stream), cn.next, len(cn.sent), cn.next, cn.sent[cn.next].name, len(cn.acc))
			return
		}
		c.Oracle("buffer-empty")
		if len(cn.acc) != 0 {
			c.Fail("C07/leftover", cn.sent[len(cn.sent)-1].name, "conn %d: %d bytes left in the connection buffer after the last message", cn.id, len(cn.acc))
			return
		}
	}
	for _, k := range keep {
		c.Oracle("delivered-stays-equal")
		if ok, d := Equal(k.snap, k.obj); !ok {
			c.Fail("C07/delivered-changed-later", k.name, "conn %d message #%d (%s) equalled the message sent when it was delivered, but after the later messages of the run had been decoded (into other receiver objects) it differs at %s: the recovered messages are not independent of each other", k.conn, k.i, k.name, d)
			return
		}
	}
}

// ---------------------------------------------------------------- C11

func init() {
	register(&scenario{
		Prop: "C11", Run: runC11, Level: "fault_enumeration", Quick: 120000, Thorough: 4000000,
		Rule:        "one run = one canonical message of one of the 170 types (seeded value); the connection is cut after k bytes for EVERY k in 0..len-1 when the encoding is at most 4096 bytes, otherwise for 64 seeded positions plus the first field boundaries +-1; each prefix is decoded by a fresh receiver, or - as the bytes of a frame arrive - by ONE reused receiver that starts empty or holding this message or a close relative of it. Oracle: Decode(w[:k]) returns a non-nil error for every strict prefix. The crash points per message are enumerated; the messages are seeded samples. Non-trivial = at least one cut was applied (types with an empty encoding have no strict prefix and are counted as skipped); distinct = distinct run fingerprints.",
		Assumptions: []string{"values canonical w.r.t. the pinned schema"},
	})
}

func runC11(c *RunCtx) {
	t := c.T
	g := &Gen{t: t, cfg: drawCfg(t, c.Thorough)}
	name := pickType(t, 3)
	s, ok := genSent(c, g, name)
	if !ok {
		return
	}
	c.Count("type."+name, 1)
	c.LogValue("MESSAGE "+name, s.pre)
	L := len(s.w)
	if L == 0 {
		c.Probe("skip.empty-encoding-has-no-strict-prefix")
		return
	}
	var ks []int
	if L <= 4096 {
		for k := 0; k < L; k++ {
			ks = append(ks, k)
		}
		c.Probe("all-cut-positions-enumerated")
	} else {
		seen := map[int]bool{}
		add := func(k int) {
			if k >= 0 && k < L && !seen[k] {
				seen[k] = true
				ks = append(ks, k)
			}
		}
		spans, total := Layout(s.post)
		if total == L {
			for _, sp := range spans {
				add(sp.Off - 1)
				add(sp.Off)
				add(sp.Off + 1)
			}
		}
		if len(ks) > 96 {
			ks = ks[:96]
		}
		for i := 0; i < 64; i++ {
			add(t.Intn(L))
		}
		add(L - 1)
		add(0)
	}
	c.Fire("net.cut")
	c.Count("cuts", uint64(len(ks)))
	shape := drawBufShape(t)
	c.Logf("RECEIVE BUFFER: %s", shape)
	// the receiver: a fresh object per attempt, or ONE object that the receive loop keeps using
	// while the bytes arrive (k grows) - empty at first, or holding this very message or a close
	// relative of it from an earlier delivery
	var held any
	switch t.Intn(5) {
	case 4:
		// ... holding another message of the type (other discriminator key, hence possibly another,
		// shorter body or extension type)
		if other, ok := genSent(c, g, name); ok {
			held = newValue(name)
			if rr := tryDecode(held, bytes.NewBuffer(cloneBytes(other.w))); rr.Err != nil || rr.Panic != nil {
				held = nil
			}
		}
	case 1:
		held = newValue(name)
	case 2:
		held = newValue(name)
		if rr := tryDecode(held, bytes.NewBuffer(cloneBytes(s.w))); rr.Err != nil || rr.Panic != nil {
			held = nil
		}
	case 3:
		var vb bytes.Buffer
		if rr := tryEncode(variantOf(s.pre, t.Bulk()), &vb); rr.Err == nil && rr.Panic == nil {
			held = newValue(name)
			if rr := tryDecode(held, bytes.NewBuffer(cloneBytes(vb.Bytes()))); rr.Err != nil || rr.Panic != nil {
				held = nil
			}
		}
	}
	if held != nil {
		c.Fire("recv.dirty")
		c.LogValue("RECEIVER (reused for every attempt) HOLDS", held)
	}
	if cfg, restore := registryConfig(c, t); cfg != "" {
		defer restore()
		c.Logf("RECEIVER CONFIGURATION %s", cfg)
	}
	for _, k := range ks {
		buf := shape.build(c, s.w[:k])
		recv := held
		if recv == nil {
			recv = newValue(name)
		}
		r := tryDecode(recv, buf)
		if r.Panic != nil {
			c.Probe("panic-on-truncated-input(reported-by-C09)")
			continue
		}
		c.Oracle("truncated-rejected")
		if r.Err == nil {
			c.T.Observe(uint64(k))
			c.LogValue("HALF-DECODED AS", recv)
			c.Fail("C11/accepted-truncated", name, "Decode of the first %d of %d bytes of a valid %s returned nil (success) — wire %s", k, L, name, hexClip(s.w, 64))
			return
		}
	}
}

// ---------------------------------------------------------------- C08

func init() {
	register(&scenario{
		Prop: "C08", Run: runC08, Level: "exploration", Quick: 1500000, Thorough: 30000000, MemLimit: true,
		Rule:        "one run = a valid encoding of one of the 170 types passed through a byte-substitution fault of the simulated wire — foreign peer (framing intact; arbitrary bytes in text fields incl. interior/all pads, NULs, >=0x80; arbitrary bit patterns in numeric fields incl. NaN payloads and sign bits; wrong self-computed length/checksum), 1-3 bit flips (uniform or aimed at prefixes/discriminators), or pure noise of the right length for fixed-size types — then decoded. Whenever Decode accepts: oracle = re-encoding the decoded object into an empty buffer reproduces exactly the bytes Decode consumed, except that self-computed frame fields (pinned positions) may be replaced by their correct values. Non-trivial = the fault changed at least one byte and the input was accepted; distinct = distinct run fingerprints.",
		Assumptions: []string{"pinned frame geometry for the mask of self-computed fields", "Decode's consumed count is taken from the buffer's Len() delta"},
	})
}

func runC08(c *RunCtx) {
	t := c.T
	g := &Gen{t: t, cfg: drawCfg(t, c.Thorough)}
	name := pickType(t, 3)
	if t.Intn(40) == 0 {
		lateRegister(c, g, name)
	}
	var s *sent
	ok := false
	if c.Thorough && t.Chance(1, 4000) {
		// a multi-megabyte frame (the checksum accumulators' ranges)
		m := jumboFrame(g, 8_450_000+t.Intn(100_000))
		name = "szse.SzseBinary"
		s = &sent{name: name, pre: Clone(m), post: m}
		var b bytes.Buffer
		if r := tryEncode(m, &b); r.Err == nil && r.Panic == nil {
			s.w, ok = cloneBytes(b.Bytes()), true
		}
		c.Probe("jumbo-frame")
	} else {
		s, ok = genSent(c, g, name)
	}
	if !ok {
		return
	}
	c.Count("type."+name, 1)
	// wire bytes of a later message of the same type (a close relative), fixed now: like everything
	// a receiver sees they exist before any decode of this run happens
	var laterWire []byte
	if t.Intn(3) == 0 {
		var vb bytes.Buffer
		if rr := tryEncode(variantOf(s.pre, t.Bulk()), &vb); rr.Err == nil && rr.Panic == nil {
			laterWire = cloneBytes(vb.Bytes())
		}
	}
	spans, total := Layout(s.post)
	if total != len(s.w) {
		spans = nil
		c.Probe("aim.layout-mismatch(blind faults only)")
	}
	var w []byte
	desc := ""
	changed := false
	switch mode := t.Intn(8); {
	case mode <= 3 && spans != nil:
		var n int
		w, desc, n = foreignPeer(t, s.w, spans)
		if n > 0 && !bytes.Equal(w, s.w) {
			c.Fire("net.foreign")
			changed = true
		}
	case mode <= 5:
		w, desc = flipBits(t, s.w, spans)
		if !bytes.Equal(w, s.w) {
			c.Fire("net.flip")
			changed = true
		}
	case mode == 6 && t.Intn(2) == 0 && frameGeoms[name] != nil:
		if aw, ok := appendedFields(t, s.w, name); ok {
			w, desc = aw, "peer on a newer protocol revision (extra bytes behind the body, length field covering them)"
			c.Fire("net.foreign")
			changed = true
		} else {
			w, desc = cloneBytes(s.w), "unfaulted"
		}
	case mode == 6:
		w = noise(t, len(s.w))
		desc = "noise"
		if len(w) > 0 {
			c.Fire("net.foreign")
			changed = true
		}
	default:
		w = cloneBytes(s.w)
		desc = "unfaulted"
	}
	c.Logf("TYPE %s WIRE %s FAULT %s", name, hexClip(w, 96), desc)
	// trailing bytes so that over-consumption is visible
	tail := noise(t, t.Intn(6))
	all := append(cloneBytes(w), tail...)
	shape := drawBufShape(t)
	buf := shape.build(c, all)
	var backing []byte
	if b := buf.Bytes(); cap(b) > 0 {
		backing = b[:min(cap(b), len(b)+64)]
	}
	recv := newValue(name)
	if t.Intn(4) == 3 {
		// the receiver object is reused: it decoded another message of this type before
		other, ok := genSent(c, g, name)
		if ok && t.Intn(2) == 0 {
			// ... a close relative of the one arriving now
			var vb bytes.Buffer
			if rr := tryEncode(variantOf(s.pre, t.Bulk()), &vb); rr.Err == nil && rr.Panic == nil {
				other.w = cloneBytes(vb.Bytes())
			}
		}
		if ok {
			if rr := tryDecode(recv, bytes.NewBuffer(cloneBytes(other.w))); rr.Err == nil && rr.Panic == nil {
				c.Fire("recv.dirty")
				desc += " into a receiver that decoded another " + name + " before"
			} else {
				recv = newValue(name)
			}
		}
	}
	c.Logf("RECEIVE BUFFER: %s", shape)
	r := tryDecode(recv, buf)
	if r.Panic != nil {
		c.Probe("panic-on-faulted-input(reported-by-C09)")
		return
	}
	if r.Err != nil {
		c.Probe("rejected")
		return
	}
	c.Probe("accepted")
	_ = changed
	consumed := len(all) - buf.Len()
	if consumed < 0 || consumed > len(all) {
		c.Probe("skip.buffer-grew")
		return
	}
	c.LogValue("DECODED AS", recv)
	var out bytes.Buffer
	r2 := tryEncode(recv, &out)
	c.Oracle("reencode-returns")
	if r2.Panic != nil || r2.Err != nil {
		c.Fail("C08/reencode-fails", name, "the decoder accepted %d bytes (%s) but encoding the decoded %s fails: err=%v panic=%v", consumed, desc, name, r2.Err, r2.Panic)
		return
	}
	e := out.Bytes()
	got := all[:consumed]
	c.T.ObserveBytes(e)
	c.Oracle("reencode-reproduces-consumed")
	geom := frameGeoms[name]
	masked := func(i int) bool {
		if geom == nil || !geom.Computed {
			return false
		}
		if i >= geom.LenOff && i < geom.LenOff+4 {
			return true
		}
		return geom.Algo != "" && i >= len(e)-4
	}
	if len(e) != len(got) {
		c.Fail("C08/reencode-length", name, "decoder consumed %d bytes of %s (%s) but re-encoding the result gives %d bytes: consumed %s, re-encoded %s", len(got), name, desc, len(e), hexClip(got, 64), hexClip(e, 64))
		return
	}
	for i := range e {
		if e[i] != got[i] && !masked(i) {
			c.Fail("C08/reencode-differs", name, "decoder accepted %s bytes (%s) but re-encoding the decoded message differs at byte %d of %d: wire %#02x, re-encoded %#02x (consumed %s / re-encoded %s)", name, desc, i, len(e), got[i], e[i], hexClip(got, 64), hexClip(e, 64))
			return
		}
	}
	if laterWire != nil {
		// the application keeps the decoded message; the next message of the type arrives and is
		// decoded into another receiver (and, half of the time, sent on); then the kept message
		// is encoded again
		for i := range backing {
			backing[i] ^= 0x5C // the receive buffer is recycled for the next read
		}
		other := newValue(name)
		if rr := tryDecode(other, bytes.NewBuffer(laterWire)); rr.Err == nil && rr.Panic == nil && t.Intn(2) == 0 {
			tryEncode(other, &bytes.Buffer{})
		}
		var again bytes.Buffer
		r3 := tryEncode(recv, &again)
		c.Fire("hist.later-reencode")
		c.Oracle("later-reencode-same-bytes")
		if r3.Panic != nil || r3.Err != nil || !bytes.Equal(again.Bytes(), e) {
			c.Fail("C08/later-reencode-differs", name, "the decoded %s re-encoded to the consumed bytes at first, but after the receive buffer had been recycled and another message of the type decoded (and encoded) in between, encoding the same (kept) object gives different bytes (err=%v panic=%v, first difference at %d): what the decoder handed out did not stay the caller's", name, r3.Err, r3.Panic, firstDiff(again.Bytes(), e))
			return
		}
	}
	if geom != nil && geom.Computed && len(e) >= geom.HeaderLen+geom.TrailerLen {
		v := geom.verifyFrame(e)
		c.Oracle("computed-fields-unchanged-or-correct")
		if get32(e[geom.LenOff:], geom.LE) != get32(got[geom.LenOff:], geom.LE) && !v.LenOK {
			c.Fail("C08/computed-length", name, "re-encoded length field %d is neither the wire's %d nor the correct %d", v.WireLen, get32(got[geom.LenOff:], geom.LE), v.WantLen)
			return
		}
		if geom.Algo != "" && get32(e[len(e)-4:], geom.LE) != get32(got[len(got)-4:], geom.LE) && !v.SumOK {
			c.Fail("C08/computed-checksum", name, "re-encoded checksum %#x is neither the wire's %#x nor the correct %#x", v.WireSum, get32(got[len(got)-4:], geom.LE), v.WantSum)
			return
		}
	}
}

// ---------------------------------------------------------------- C09 / C10 : hostile and noisy streams

// dirtyReceiver: in one run of four the faulted stream is decoded into a receiver object that
// decoded a valid message of the type before (lists and parts populated), as a receive loop
// that reuses its message objects would present it.
func dirtyReceiver(c *RunCtx, g *Gen, name string) any {
	recv := newValue(name)
	if c.T.Intn(4) != 0 {
		return recv
	}
	saved := g.cfg
	g.cfg.ListCap = max(min(g.cfg.ListCap, 17), 3)
	g.cfg.StrCap = max(min(g.cfg.StrCap, 40), 4)
	other, ok := genSent(c, g, name)
	g.cfg = saved
	if !ok {
		return recv
	}
	if rr := tryDecode(recv, bytes.NewBuffer(cloneBytes(other.w))); rr.Err != nil || rr.Panic != nil {
		return newValue(name)
	}
	c.Fire("recv.dirty")
	return recv
}

func tickBudget(n int) uint64 { return 5000 + 100*uint64(n) }

// faultedInput draws a decoder type and a (usually malformed) input for it; in one run of four
// a second, independent fault is applied on top of the first (an understated or stale
// self-computed field AND a cut; a hostile prefix AND a flip; ...): error paths that look at
// two wire values at once only misbehave when both are off.
func faultedInput(c *RunCtx, g *Gen, hostileOnly bool) (name string, w []byte, desc string) {
	name, w, desc, spans := faultedInput1(c, g, hostileOnly)
	if len(w) == 0 || c.T.Intn(4) != 0 {
		return
	}
	t := c.T
	switch t.Intn(3) {
	case 0:
		// a self-computed field (frame body length, checksum) understated, zero or slightly off
		cs := spansOfKind(spans, "computed")
		if len(cs) > 0 {
			sp := cs[t.Intn(len(cs))]
			if sp.Off+sp.Len <= len(w) {
				w = cloneBytes(w)
				var v uint64
				switch t.Intn(4) {
				case 0:
					v = 0
				case 1:
					v = uint64(t.Intn(16))
				case 2:
					cur := uint64(0)
					for i := 0; i < sp.Len; i++ {
						if sp.LE {
							cur |= uint64(w[sp.Off+i]) << (8 * uint(i))
						} else {
							cur = cur<<8 | uint64(w[sp.Off+i])
						}
					}
					v = cur - 1 - uint64(t.Intn(8))
				default:
					v = uint64(t.Intn(1 << 16))
				}
				putN(w[sp.Off:], sp.Len, sp.LE, v)
				desc += fmt.Sprintf(" + %s:=%d", describeSpan(sp), v)
				c.Fire("net.second-fault")
			}
		}
	case 1:
		k := t.Intn(len(w))
		w = w[:k]
		desc += fmt.Sprintf(" + cut(%d)", k)
		c.Fire("net.second-fault")
	default:
		var d string
		w, d = flipBits(t, w, spans)
		desc += " + " + d
		c.Fire("net.second-fault")
	}
	if c.T.Intn(2) == 0 && len(w) > 0 {
		// and possibly a cut after that (the frame arrived in two reads)
		k := t.Intn(len(w) + 1)
		if k < len(w) {
			w = w[:k]
			desc += fmt.Sprintf(" + cut(%d)", k)
		}
	}
	return
}

func faultedInput1(c *RunCtx, g *Gen, hostileOnly bool) (name string, w []byte, desc string, spans []Span) {
	t := c.T
	name = pickType(t, 3)
	mode := t.Intn(10)
	if hostileOnly {
		mode = []int{2, 2, 2, 2, 2, 2, 2, 9, 2, 8}[mode]
	}
	if mode == 3 {
		n := 0
		switch t.Intn(4) {
		case 0:
			n = t.Intn(16)
		case 1:
			n = t.Intn(200)
		default:
			n = t.Intn(4097)
		}
		w = noise(t, n)
		c.Fire("net.foreign")
		return name, w, fmt.Sprintf("noise(%d)", n), spans
	}
	src := name
	if mode == 6 {
		src = pickType(t, 5) // another type's valid encoding fed to this decoder
	}
	s, ok := genSent(c, g, src)
	if !ok {
		return name, nil, "unencodable", spans
	}
	var total int
	spans, total = Layout(s.post)
	if total != len(s.w) {
		spans = nil
		c.Probe("aim.layout-mismatch(blind faults only)")
	}
	switch mode {
	case 0:
		k := 0
		if len(s.w) > 0 {
			k = t.Intn(len(s.w))
			c.Fire("net.cut")
		}
		return name, s.w[:k], fmt.Sprintf("cut(%d of %d)", k, len(s.w)), spans
	case 1, 7:
		w, desc = flipBits(t, s.w, spans)
		if !bytes.Equal(w, s.w) {
			c.Fire("net.flip")
		}
		return name, w, desc, spans
	case 2, 8:
		var fired bool
		w, desc, fired = hostilePrefix(t, s.w, spans)
		if fired {
			c.Fire("net.hostile")
		}
		return name, w, desc, spans
	case 4:
		var fired bool
		w, desc, fired = unknownDiscriminator(t, s.w, spans)
		if fired {
			c.Fire("net.unknown-discriminator")
			return name, w, desc, spans
		}
		w, desc = flipBits(t, s.w, spans)
		c.Fire("net.flip")
		return name, w, desc, spans
	case 5:
		k := 0
		if len(s.w) > 0 {
			k = t.Intn(len(s.w) + 1)
		}
		tailN := t.Intn(64)
		w = append(cloneBytes(s.w[:k]), noise(t, tailN)...)
		c.Fire("net.foreign")
		return name, w, fmt.Sprintf("valid-prefix(%d)+garbage(%d)", k, tailN), spans
	case 6:
		c.Fire("net.foreign")
		return name, s.w, "valid encoding of " + src, spans
	default:
		return name, s.w, "unfaulted", spans
	}
}

func init() {
	register(&scenario{
		Prop: "C09", Run: runC09, Level: "exploration", Quick: 2000000, Thorough: 40000000, MemLimit: true, AbortIsViolation: true,
		Rule:        "one run = one decoder (any of the 170 types) fed one seeded faulted stream: connection cut at a seeded position, 1-3 bit flips (uniform or aimed at length/count prefixes and discriminators), a length/count prefix rewritten to max / max-1 / half-range / just beyond what is present (optionally with the tail cut away), pure noise of 0..4096 bytes, an unregistered or padded discriminator, a valid prefix followed by garbage, or another type's valid encoding. Monitors: recovered panic; logical tick budget 5000+100*len(input) on the step clock (a decoder that loops is reported deterministically); the worker process runs under the simulated machine's 2 GiB address-space limit, so a runtime out-of-memory abort kills the worker, is attributed to the open run, re-executed alone and reported. Non-trivial = the fault changed the stream and the decoder ran; distinct = distinct run fingerprints.",
		Assumptions: []string{"the simulated machine has 2 GiB of address space (RLIMIT_AS on the worker)", "'time proportional to the input' is measured in instrumented statements executed, budget 5000+100 per input byte"},
	})
	register(&scenario{
		Prop: "C10", Run: runC10, Level: "exploration", Quick: 1200000, Thorough: 24000000, MemLimit: true, AbortIsViolation: true,
		Rule:        "one run = one decoder fed a short stream whose length/count prefix (located with the pinned schema) was rewritten to a hostile value, or a blind run of 0xFF bytes, or (control, 1 in 5) an unfaulted valid encoding. Monitor: bytes allocated during the Decode call (runtime.MemStats.TotalAlloc delta; nothing else runs in the worker) must not exceed 8 KiB + 256 bytes per input byte present; a runtime out-of-memory abort under the 2 GiB limit is attributed to the open run and reported. Non-trivial = a hostile prefix was actually written and the decoder ran; distinct = distinct run fingerprints.",
		Assumptions: []string{"allocation bound 8 KiB + 256 B per input byte: > 3x the densest legitimate decode measured (list of 1-byte texts: about 72 B per wire byte)", "the simulated machine has 2 GiB of address space"},
	})
}

func runC09(c *RunCtx) {
	g := &Gen{t: c.T, cfg: drawCfg(c.T, c.Thorough)}
	name, w, desc := faultedInput(c, g, false)
	if w == nil && desc == "unencodable" {
		return
	}
	if cfg, restore := registryConfig(c, c.T); cfg != "" {
		defer restore()
		desc += "; " + cfg
	}
	c.Count("type."+name, 1)
	shape := drawBufShape(c.T)
	c.Logf("DECODER %s FAULT %s INPUT %s in %s", name, desc, hexClip(w, 128), shape)
	buf := shape.build(c, w)
	recv := dirtyReceiver(c, g, name)
	if c.T.Intn(40) == 0 {
		// the application registers a further discriminator key while traffic is flowing
		lateRegister(c, &Gen{t: c.T, cfg: g.cfg}, name)
	}
	budget := tickBudget(len(w))
	r := tryDecodeBudget(recv, buf, budget)
	c.T.Observe(r.Ticks)
	c.Count("decode_ticks", r.Ticks)
	c.Oracle("returns-normally")
	if r.Budget {
		c.Fail("C09/loop", name, "Decode of %d input bytes (%s) was still running after %d logical steps (budget 5000+100/byte): it does not return in time proportional to the input", len(w), desc, budget)
		return
	}
	if r.Panic != nil {
		c.Fail("C09/panic", name, "Decode of %d input bytes (%s) panicked: %v\n%s", len(w), desc, r.Panic, head(r.Stack, 1500))
		return
	}
	if r.Err != nil {
		c.Probe("rejected")
	} else {
		c.Probe("accepted")
	}
}

const allocSlack = 8 << 10
const allocPerByte = 256

func runC10(c *RunCtx) {
	t := c.T
	g := &Gen{t: t, cfg: drawCfg(t, c.Thorough)}
	var name, desc string
	var w []byte
	if t.Intn(5) == 4 {
		name = pickType(t, 3)
		if t.Chance(1, 120) {
			// an honest message whose texts are megabytes long and really present: memory must stay
			// a small multiple of the input for those too
			g.cfg.StrCap = 1<<20 + t.Intn(3<<20)
			c.Probe("control.megabyte-texts")
		}
		s, ok := genSent(c, g, name)
		if !ok {
			return
		}
		w, desc = s.w, "unfaulted(control)"
		c.Probe("control")
	} else {
		name, w, desc = faultedInput(c, g, true)
		if w == nil && desc == "unencodable" {
			return
		}
	}
	c.Count("type."+name, 1)
	shape := drawBufShape(t)
	c.Logf("DECODER %s FAULT %s INPUT %s in %s", name, desc, hexClip(w, 128), shape)
	buf := shape.build(c, w)
	recv := dirtyReceiver(c, g, name)
	cd := asCodec(recv)
	var m0, m1 runtime.MemStats
	var panicked any
	var derr error
	runtime.ReadMemStats(&m0)
	func() {
		defer func() { panicked = recover() }()
		derr = cd.Decode(buf)
	}()
	runtime.ReadMemStats(&m1)
	delta := m1.TotalAlloc - m0.TotalAlloc
	_ = derr
	if panicked != nil {
		c.Probe("panic(reported-by-C09)")
	}
	bound := uint64(allocSlack + allocPerByte*len(w))
	c.T.Observe(uint64(len(w)))
	c.Oracle("allocation-bounded-by-input")
	if delta > c.Stats.Counters["max.alloc_delta"] {
		c.Stats.Counters["max.alloc_delta"] = delta
	}
	if len(w) > 0 {
		ratio := delta * 100 / uint64(len(w)+64)
		if ratio > c.Stats.Counters["max.alloc_per_100_input_bytes"] {
			c.Stats.Counters["max.alloc_per_100_input_bytes"] = ratio
		}
	}
	if delta > bound {
		c.Fail("C10/allocation", name, "Decode of %d input bytes (%s) allocated %d bytes (bound %d = 8 KiB + 256 B per input byte): memory is reserved for a claimed length, not for data present. input %s", len(w), desc, delta, bound, hexClip(w, 48))
	}
}

// ---------------------------------------------------------------- C15

func init() {
	register(&scenario{
		Prop: "C15", Run: runC15, Level: "exploration", Quick: 800000, Thorough: 12000000, MemLimit: true,
		Rule:        "one run = one byte string accepted by a decoder (a valid encoding, or a foreign-peer/bit-flipped one that is still accepted) decoded into a fresh receiver and into a dirty receiver whose history is seeded in two steps: first {previously decoded a different message of the same type (longer lists, other body/extension type), generator-filled, the same bytes decoded into it before, fresh}, then optionally a FAILED decode of a truncated stream (a strict prefix of another message, or of these very bytes as when a frame arrives in two segments). Oracle: the two results are deep-equal (numbers by bits, nil==empty list). Non-trivial = the dirty receiver really differed from a zero value and both decodes succeeded; distinct = distinct run fingerprints.",
		Assumptions: []string{"only successful decodes are compared; the state left by a failed decode is outside the property"},
	})
}

func runC15(c *RunCtx) {
	t := c.T
	g := &Gen{t: t, cfg: drawCfg(t, c.Thorough)}
	name := pickType(t, 4)
	s, ok := genSent(c, g, name)
	if !ok {
		return
	}
	c.Count("type."+name, 1)
	w := s.w
	desc := "valid"
	if t.Intn(4) == 3 {
		spans, total := Layout(s.post)
		if total == len(s.w) {
			switch t.Intn(3) {
			case 0:
				w, desc, _ = foreignPeer(t, s.w, spans)
			case 1:
				w, desc = flipBits(t, s.w, spans)
			default:
				// a discriminator this tree may or may not know (near misses of registered keys)
				if w2, d, ok := unknownDiscriminator(t, s.w, spans); ok {
					w, desc = w2, d
				}
			}
		}
	}
	// related history: the receiver held a close relative of what arrives now (texts that are
	// prefixes of each other, shorter or longer lists, zeroed numbers, same body types)
	var relative []byte
	if desc == "valid" && t.Intn(3) == 0 {
		v := variantOf(s.pre, t.Bulk())
		var vb bytes.Buffer
		if rr := tryEncode(v, &vb); rr.Err == nil && rr.Panic == nil {
			relative = cloneBytes(vb.Bytes())
			if t.Intn(2) == 0 {
				// the relative arrives, the original was held
				w, relative = relative, w
				desc = "valid (a relative of what the receiver held)"
			}
		}
	}
	fresh := newValue(name)
	fb := bytes.NewBuffer(cloneBytes(w))
	r := tryDecode(fresh, fb)
	if r.Panic != nil || r.Err != nil {
		c.Probe("skip.not-accepted")
		return
	}
	// dirty receiver: a first step fills it, an optional second step is a failed attempt on a
	// partial stream (what a receive loop does between two complete frames)
	var dirty any
	how := ""
	first := t.Intn(5)
	if relative != nil {
		first = 5
	}
	switch first {
	case 5:
		dirty = newValue(name)
		if rr := tryDecode(dirty, bytes.NewBuffer(cloneBytes(relative))); rr.Err != nil || rr.Panic != nil {
			c.Probe("skip.dirtying-decode-failed")
			return
		}
		how = "previously decoded a close relative of this message"
		c.Probe("history.relative")
		c.LogValue("RECEIVER HELD", dirty)
	case 0, 1:
		// decoded another message before
		saved := g.cfg
		if g.cfg.ListCap < 3 {
			g.cfg.ListCap = 3
		}
		if g.cfg.StrCap < 4 {
			g.cfg.StrCap = 40
		}
		other, ok := genSent(c, g, name)
		g.cfg = saved
		if !ok {
			return
		}
		ow := other.w
		how = "previously decoded another " + name
		if t.Intn(3) == 0 {
			if aw, ok := appendedFields(t, other.w, name); ok {
				ow = aw
				how = "previously decoded another " + name + " from a peer on a newer protocol revision (extra bytes behind the body, length field covering them)"
			}
		}
		dirty = newValue(name)
		if rr := tryDecode(dirty, bytes.NewBuffer(cloneBytes(ow))); rr.Err != nil || rr.Panic != nil {
			c.Probe("skip.dirtying-decode-failed")
			return
		}
		c.LogValue("RECEIVER HELD", dirty)
	case 2:
		saved := g.cfg
		g.cfg.ListCap = max(g.cfg.ListCap, 17)
		g.cfg.StrCap = max(g.cfg.StrCap, 40)
		dirty = g.Value(name)
		g.cfg = saved
		how = "generator-filled"
		if t.Intn(2) == 0 {
			if n := spareCapacity(reflect.ValueOf(dirty).Elem(), t.Bulk()); n > 0 {
				how = "generator-filled, its lists built with append (spare capacity behind their elements)"
				c.Probe("history.spare-capacity")
			}
		} else if t.Intn(2) == 0 {
			if n := aliasLists(reflect.ValueOf(dirty).Elem()); n > 0 {
				how = "generator-filled, with lists of equal type sharing one backing array (as an application that built it from windows of one slice would leave it)"
				c.Probe("history.aliased-lists")
			}
		}
		c.LogValue("RECEIVER HELD", dirty)
	case 3:
		dirty = newValue(name)
		if rr := tryDecode(dirty, bytes.NewBuffer(cloneBytes(w))); rr.Err != nil || rr.Panic != nil {
			c.Probe("skip.dirtying-decode-failed")
			return
		}
		how = "same bytes decoded into it before"
	default:
		dirty = newValue(name)
		how = "fresh"
		if schema.Types[name].Table != "" && t.Intn(2) == 0 {
			// the object was an OUTGOING message before: built without body/extension and encoded
			// (the encoder filled the missing part in from the discriminator)
			saved := g.cfg
			g.cfg.NilBody = true
			dirty = g.Value(name)
			g.cfg = saved
			tryEncode(dirty, &bytes.Buffer{})
			how = "was sent before (built without body/extension and encoded)"
			c.Probe("history.was-outgoing")
		}
	}
	switch t.Intn(5) {
	case 0, 1:
	case 4:
		// then a further message of the type - a close relative of these bytes - decoded successfully
		var vb bytes.Buffer
		if rr := tryEncode(variantOf(s.pre, t.Bulk()), &vb); rr.Err == nil && rr.Panic == nil {
			if rr := tryDecode(dirty, bytes.NewBuffer(cloneBytes(vb.Bytes()))); rr.Err == nil && rr.Panic == nil {
				how += ", then decoded a close relative of this message"
				c.Probe("history.then-relative")
			}
		}
	case 2:
		// then a failed decode of a truncated different message
		other, ok := genSent(c, g, name)
		if ok && len(other.w) > 0 {
			k := t.Intn(len(other.w))
			tryDecode(dirty, bytes.NewBuffer(cloneBytes(other.w[:k])))
			how += fmt.Sprintf(", then was left half-filled by a failed decode of %d/%d bytes of another message", k, len(other.w))
			c.Probe("history.failed-partial-other")
		}
	default:
		// then a failed attempt on a strict prefix of these very bytes (the frame arrived in two segments)
		if len(w) > 0 {
			k := t.Intn(len(w))
			if t.Intn(2) == 0 {
				k = t.Intn(min(len(w), 24))
			}
			if rr := tryDecode(dirty, bytes.NewBuffer(cloneBytes(w[:k]))); rr.Err != nil || rr.Panic != nil {
				how += fmt.Sprintf(", then failed on the first %d of these %d bytes (partial segment)", k, len(w))
				c.Probe("history.failed-partial-same")
			}
		}
	}
	if c.Tracing {
		c.LogValue("RECEIVER NOW HOLDS", dirty)
	}
	if t.Intn(2) == 0 {
		// the application logged what it had received
		if st, ok := dirty.(fmt.Stringer); ok {
			func() {
				defer func() { recover() }()
				_ = st.String()
			}()
			how += ", and was printed (String()) afterwards"
		}
	}
	if same, _ := Equal(dirty, newValue(name)); !same {
		c.Fire("recv.dirty")
	}
	c.Logf("BYTES (%s) %s ; RECEIVER %s", desc, hexClip(w, 96), how)
	db := bytes.NewBuffer(cloneBytes(w))
	if relative != nil && t.Intn(2) == 0 {
		// one pooled receive buffer: what the receiver decoded before arrived in the same backing
		// array that now holds these bytes (decoded again here, then overwritten in place)
		arr := make([]byte, max(len(relative), len(w))+32)
		copy(arr, relative)
		pb := bytes.NewBuffer(arr[:len(relative)])
		again := newValue(name)
		if rr := tryDecode(again, pb); rr.Err == nil && rr.Panic == nil {
			dirty = again
			for i := range arr {
				arr[i] = 0
			}
			copy(arr, w)
			db = bytes.NewBuffer(arr[:len(w)])
			how += " (from the same pooled backing array that now holds these bytes)"
			c.Probe("history.same-backing-array")
		}
	}
	r2 := tryDecode(dirty, db)
	c.Oracle("dirty-decode-same-outcome")
	if r2.Panic != nil {
		c.Fail("C15/panic-into-dirty", name, "Decode into a receiver that %s panicked (%v) although the same bytes decode into a fresh receiver", how, r2.Panic)
		return
	}
	if r2.Err != nil {
		c.Fail("C15/error-into-dirty", name, "Decode into a receiver that %s returned %v although the same bytes decode into a fresh receiver", how, r2.Err)
		return
	}
	c.Oracle("dirty-equals-fresh")
	if db.Len() != fb.Len() {
		c.Fail("C15/consumed-differs", name, "Decode into a receiver that %s left %d bytes unread, into a fresh receiver %d", how, db.Len(), fb.Len())
		return
	}
	ok2, d := Equal(fresh, dirty)
	c.T.Observe(uint64(len(w)))
	if !ok2 {
		c.LogValue("FRESH RESULT", fresh)
		c.LogValue("DIRTY RESULT", dirty)
		c.Fail("C15/leftover", name, "decoding the same %d bytes of %s into a receiver that %s gives a different message than into a fresh receiver, at %s", len(w), name, how, d)
		return
	}
	// equal in every exported field; the two messages must also BEHAVE the same (state kept
	// outside the exported fields shows here): same text form, same bytes when encoded
	c.Oracle("dirty-behaves-like-fresh")
	sf, okf := safeString(fresh)
	sd, okd := safeString(dirty)
	if okf && okd && sf != sd {
		c.Fail("C15/observable-differs", name, "the same %d bytes of %s decoded into a fresh receiver and into one that %s are equal field by field but print differently: fresh %q, reused %q", len(w), name, how, clip(sf), clip(sd))
		return
	}
	var ef, ed bytes.Buffer
	rf := tryEncode(Clone(fresh), &ef)
	rd := tryEncode(dirty, &ed)
	if (rf.Err != nil || rf.Panic != nil) != (rd.Err != nil || rd.Panic != nil) || !bytes.Equal(ef.Bytes(), ed.Bytes()) {
		c.Fail("C15/observable-differs", name, "the same %d bytes of %s decoded into a fresh receiver and into one that %s are equal field by field but encode differently (fresh: %d bytes err=%v; reused: %d bytes err=%v; first difference at %d)", len(w), name, how, ef.Len(), rf.Err, ed.Len(), rd.Err, firstDiff(ef.Bytes(), ed.Bytes()))
	}
}

func safeString(v any) (s string, ok bool) {
	st, is := v.(fmt.Stringer)
	if !is {
		return "", false
	}
	defer func() {
		if recover() != nil {
			ok = false
		}
	}()
	return st.String(), true
}

// ---------------------------------------------------------------- C16

func init() {
	register(&scenario{
		Prop: "C16", Run: runC16, Level: "exploration", Quick: 800000, Thorough: 12000000,
		Rule:        "one run = (decode side) a canonical message's bytes placed in a pooled buffer over a simulator-owned backing array, decoded, the result deep-copied (texts byte-copied), then the pool recycles the buffer: every byte of the array's capacity is overwritten, the buffer Reset and reused for other traffic which is decoded too; or (retained parts) an envelope decoded into twice while the application keeps the first body, with more traffic of that body's type decoded elsewhere: a body the library replaced must never change again; rarely preceded by 300-66000 earlier decodes of the type with other values (a long-lived process); or (encode side) a message encoded into a pooled buffer, the bytes snapshotted, then every list element, text and nested part of the message overwritten in place and bodies replaced, then another message encoded behind it, then (half of the runs) the output buffers taken back by the pool (overwritten, reset) and an equal message encoded again. Oracles: decoded message == its copy after recycling; written bytes == snapshot after mutating the message and after the next encode; an equal message encodes to the same bytes after the earlier output buffers were overwritten (given that it did so before they were). Non-trivial = the recycle/mutation actually changed memory and the oracle ran; distinct = distinct run fingerprints.",
		Assumptions: []string{"Go strings are never written through; only simulator-owned arrays and the message's own slices are overwritten"},
	})
}

func runC16(c *RunCtx) {
	t := c.T
	g := &Gen{t: t, cfg: drawCfg(t, c.Thorough)}
	if g.cfg.ListCap == 0 {
		g.cfg.ListCap = 3
	}
	name := pickType(t, 4)
	s, ok := genSent(c, g, name)
	if !ok {
		return
	}
	c.Count("type."+name, 1)
	c.LogValue("MESSAGE "+name, s.pre)
	churned := false
	churnRate := 8000
	if c.Thorough {
		churnRate = 2500
	}
	if t.Chance(1, churnRate) {
		// a long-lived process: many earlier decodes of this type with other values (bounded
		// tables, counters and growth thresholds inside the library fill up)
		k := []int{300, 5000, 66000}[t.Intn(3)]
		sub := &Gen{t: NewTape(t.Draw(1 << 32)), cfg: GenCfg{ListCap: 1, StrCap: 8, Alphabet: 0}}
		sub.t.MaxLen = 1 << 30
		for i := 0; i < k; i++ {
			sub.t.Out = sub.t.Out[:0]
			var b bytes.Buffer
			if r := tryEncode(sub.Value(name), &b); r.Err == nil && r.Panic == nil {
				tryDecode(newValue(name), &b)
			}
		}
		churned = true
		c.Fire("hist.long-process")
		c.Logf("PROCESS HISTORY: %d earlier decodes of %s with other values", k, name)
	}
	mode := t.Intn(5)
	if mode == 4 && schema.Types[name].Table != "" {
		c16Retained(c, g, name, s)
		return
	}
	if mode%2 == 0 {
		// ---- decode side
		slack := []int{0, 1, 64, 4096}[t.Intn(4)]
		lead := []int{0, 3, 64}[t.Intn(3)] // bytes already consumed in the pooled buffer
		// what arrives: the valid encoding, or a faulted one (cut short, unknown discriminator,
		// bit flips, a newer-revision frame) - whatever the decoder makes of it, success or error,
		// what it left in the receiver must not depend on the buffer afterwards
		in := s.w
		fdesc := "valid encoding"
		if t.Intn(2) == 0 {
			spans, total := Layout(s.post)
			if total != len(s.w) {
				spans = nil
			}
			switch t.Intn(4) {
			case 0:
				if len(s.w) > 0 {
					k := t.Intn(len(s.w))
					in, fdesc = s.w[:k], fmt.Sprintf("cut(%d of %d)", k, len(s.w))
				}
			case 1:
				if w2, d, ok := unknownDiscriminator(t, s.w, spans); ok {
					in, fdesc = w2, d
				}
			case 2:
				in, fdesc = flipBits(t, s.w, spans)
			default:
				if w2, ok := appendedFields(t, s.w, name); ok {
					in, fdesc = w2, "newer-revision frame (extra bytes behind the body)"
				}
			}
		}
		arr := make([]byte, lead+len(in)+slack)
		copy(arr[lead:], in)
		buf := bytes.NewBuffer(arr[:lead+len(in)])
		buf.Next(lead)
		recv := newValue(name)
		if t.Intn(3) == 0 {
			// the receiver object is reused: it decoded this same message before, from another buffer
			if rr := tryDecode(recv, bytes.NewBuffer(cloneBytes(s.w))); rr.Err != nil || rr.Panic != nil {
				recv = newValue(name)
			} else {
				c.Fire("recv.dirty")
			}
		}
		r := tryDecode(recv, buf)
		if r.Panic != nil {
			c.Probe("skip.decode-panicked(reported-by-C09)")
			return
		}
		if r.Err != nil {
			c.Probe("decode-failed:partial-receiver-checked")
		}
		c.Logf("INPUT %s -> err=%v", fdesc, r.Err)
		snap := Clone(recv)
		// pool recycles the buffer
		pat := byte(0xA5 + t.Intn(3))
		for i := range arr {
			arr[i] ^= pat
			if arr[i] == 0 {
				arr[i] = pat
			}
		}
		if len(arr) > 0 {
			c.Fire("pool.recycle")
		}
		buf.Reset()
		// other traffic through the recycled buffer: another type, or (so that a result cached or
		// pooled per type inside the library is reused) another message of the SAME type
		oname := name
		if t.Intn(2) == 0 {
			oname = pickType(t, 5)
		}
		if other, ok := genSent(c, g, oname); ok {
			buf.Write(other.w)
			tryDecode(newValue(other.name), buf)
			if oname == name {
				c.Probe("recycled-buffer-carried-same-type")
			}
		}
		c.Oracle("decoded-message-survives-buffer-reuse")
		okk, d := Equal(snap, recv)
		c.T.Observe(uint64(len(s.w)))
		if !okk {
			what := "the decoded"
			if r.Err != nil {
				what = "what the failed decode left in the"
			}
			c.Fail("C16/message-aliases-buffer", name, "after the source buffer was overwritten and reused, %s %s (input: %s) changed at %s — it shares memory with the buffer", what, name, fdesc, d)
		}
		return
	}
	// ---- encode side
	slack := []int{4096, 0, 1, 64, -1}[t.Intn(5)]
	arr := make([]byte, 0, len(s.w)+max(slack, 0))
	buf := bytes.NewBuffer(arr)
	if slack < 0 {
		buf = &bytes.Buffer{} // a zero-value buffer: no storage of its own yet
	}
	m := Clone(s.pre)
	if r := tryEncode(m, buf); r.Panic != nil || r.Err != nil {
		c.Probe("skip.encode-failed")
		return
	}
	snap := cloneBytes(buf.Bytes())
	if !churned && slack >= 0 {
		// this value was encoded once before in this run (to obtain the wire bytes), into a scratch
		// buffer that its owner has overwritten and reset since; no other library call happened in
		// between, so the two encodings must be equal
		c.Oracle("encoding-survives-recycling-of-earlier-output-buffers")
		if !bytes.Equal(snap, s.w) {
			c.Fail("C16/encoding-changed-by-buffer-reuse", name, "a %s was encoded, its output buffer overwritten and reset by its owner, and an equal message encoded again: the bytes differ (first difference at %d) — the library kept a view of the caller's output buffer", name, firstDiff(snap, s.w))
			return
		}
	}
	n := mutateInPlace(reflect.ValueOf(m).Elem(), t.Bulk())
	if n > 0 {
		c.Fire("app.mutate")
	}
	c.Count("mutated_cells", uint64(n))
	c.Oracle("bytes-survive-message-mutation")
	if !bytes.Equal(buf.Bytes(), snap) {
		c.Fail("C16/bytes-alias-message", name, "after mutating the %s that was encoded, the bytes already written changed (first difference at %d) — the buffer shares memory with the message", name, firstDiff(buf.Bytes(), snap))
		return
	}
	oname := pickType(t, 5)
	if t.Intn(2) == 0 {
		oname = name
	}
	if other, ok := genSent(c, g, oname); ok {
		if t.Intn(2) == 0 {
			tryEncode(Clone(other.pre), &bytes.Buffer{}) // ... into another buffer first
		}
		tryEncode(Clone(other.pre), buf)
		c.Oracle("bytes-survive-next-encode")
		b := buf.Bytes()
		if len(b) < len(snap) || !bytes.Equal(b[:len(snap)], snap) {
			c.Fail("C16/bytes-changed-by-next-encode", name, "bytes of the first message changed when another message was encoded behind it")
			return
		}
	}
	// the pool takes the send buffer back: its storage is overwritten and reused.  An equal
	// message encoded afterwards must come out as before - unless the library kept a view of the
	// caller's buffer (a memoised frame image, a template) instead of a copy.  Control: the same
	// value encoded once more BEFORE the recycling must already equal the first encoding
	// (otherwise repeatability is broken without any buffer reuse: C06's subject, not this one's).
	if t.Intn(2) == 0 {
		var b0 bytes.Buffer
		ctrl := Clone(s.pre)
		if r := tryEncode(ctrl, &b0); r.Panic == nil && r.Err == nil && bytes.Equal(b0.Bytes(), snap) {
			recycleBuf(buf)
			recycleBuf(&b0)
			c.Fire("pool.recycle")
			var b1 bytes.Buffer
			again := Clone(s.pre)
			if t.Intn(2) == 0 {
				again = ctrl // the very object that was encoded into one of the recycled buffers
			}
			r1 := tryEncode(again, &b1)
			c.Oracle("encoding-survives-recycling-of-earlier-output-buffers")
			if r1.Panic != nil || r1.Err != nil || !bytes.Equal(b1.Bytes(), snap) {
				c.Fail("C16/encoding-changed-by-buffer-reuse", name, "a %s was encoded twice with equal bytes; then the two output buffers were overwritten and reset by their owner; an equal message encoded afterwards gives different bytes (first difference at %d, err=%v panic=%v) — the library kept a view of a caller's output buffer", name, firstDiff(b1.Bytes(), snap), r1.Err, r1.Panic)
				return
			}
		}
	}
	c.T.ObserveBytes(snap)
}

// c16Retained: an envelope (frame or extended message) is decoded into, the application keeps
// the body it got, decodes the next message into the same envelope, and more traffic of the
// first body's type is decoded elsewhere.  A body that the library REPLACED in the envelope
// (identity no longer reachable from it) belongs to the application: it must never change again.
// A part that the library overwrote in place (same identity still in the envelope) is the
// documented in-place reuse and is not compared.
func c16Retained(c *RunCtx, g *Gen, name string, s *sent) {
	t := c.T
	env := newValue(name)
	if r := tryDecode(env, bytes.NewBuffer(cloneBytes(s.w))); r.Err != nil || r.Panic != nil {
		c.Probe("skip.decode-failed")
		return
	}
	type part struct {
		id   uintptr
		obj  any
		snap any
		path string
	}
	var parts []part
	var collect func(rv reflect.Value, ts *TypeSchema, path string, into *[]part)
	collect = func(rv reflect.Value, ts *TypeSchema, path string, into *[]part) {
		for i := range ts.Fields {
			f := &ts.Fields[i]
			if f.Kind != "body" {
				continue
			}
			fv := fieldOf(rv, f.Name)
			if fv.IsNil() || fv.Elem().Kind() != reflect.Ptr || fv.Elem().IsNil() {
				continue
			}
			obj := fv.Elem().Interface()
			*into = append(*into, part{fv.Elem().Pointer(), obj, Clone(obj), path + "." + f.Name})
			if dn := typeNameOfType(fv.Elem().Type()); schema.Types[dn] != nil {
				collect(fv.Elem().Elem(), schemaOf(dn), path+"."+f.Name, into)
			}
		}
	}
	collect(reflect.ValueOf(env).Elem(), schemaOf(name), "$", &parts)
	if len(parts) == 0 {
		c.Probe("skip.no-body")
		return
	}
	// next message into the same envelope
	next, ok := genSent(c, g, name)
	if !ok {
		return
	}
	if r := tryDecode(env, bytes.NewBuffer(cloneBytes(next.w))); r.Err != nil || r.Panic != nil {
		c.Probe("skip.decode-failed")
		return
	}
	c.Fire("recv.dirty")
	// more traffic carrying the first body's type, decoded into other envelopes
	for i := 0; i < 1+t.Intn(2); i++ {
		var vb bytes.Buffer
		if rr := tryEncode(variantOf(s.pre, t.Bulk()), &vb); rr.Err == nil && rr.Panic == nil {
			tryDecode(newValue(name), bytes.NewBuffer(cloneBytes(vb.Bytes())))
		}
	}
	var now []part
	collect(reflect.ValueOf(env).Elem(), schemaOf(name), "$", &now)
	still := map[uintptr]bool{}
	for _, p := range now {
		still[p.id] = true
	}
	for _, p := range parts {
		if still[p.id] {
			c.Probe("part-reused-in-place(not compared)")
			continue
		}
		c.Oracle("retained-part-unchanged")
		if ok, d := Equal(p.snap, p.obj); !ok {
			c.Fail("C16/retained-part-changed", name, "the %s that Decode handed out in %s%s was replaced in the envelope by the next decode, yet it changed afterwards (at %s) when other messages were decoded elsewhere: decoded messages share memory with each other through the library", typeNameOf(p.obj), name, p.path[1:], d)
			return
		}
	}
	c.T.Observe(uint64(len(parts)))
}

// spareCapacity re-allocates the numeric and text lists reachable from a value with 1-8
// elements of spare capacity behind their contents (what append leaves).  Contents unchanged.
func spareCapacity(rv reflect.Value, b *bulk) int {
	n := 0
	var walk func(v reflect.Value)
	walk = func(v reflect.Value) {
		switch v.Kind() {
		case reflect.Ptr, reflect.Interface:
			if !v.IsNil() {
				walk(v.Elem())
			}
		case reflect.Struct:
			for i := 0; i < v.NumField(); i++ {
				if v.Type().Field(i).IsExported() {
					walk(v.Field(i))
				}
			}
		case reflect.Slice:
			ek := v.Type().Elem().Kind()
			if (isNumKind(ek) || ek == reflect.String) && v.CanSet() {
				out := reflect.MakeSlice(v.Type(), v.Len(), v.Len()+1+b.intn(8))
				reflect.Copy(out, v)
				v.Set(out)
				n++
			} else {
				for i := 0; i < v.Len() && i < 8; i++ {
					walk(v.Index(i))
				}
			}
		}
	}
	walk(rv)
	return n
}

// aliasLists rearranges the numeric and text lists reachable from a value so that lists of the
// same element type are adjacent windows of ONE backing array (the first window's capacity
// extends over the following ones).  Contents are unchanged.  It returns how many lists share.
func aliasLists(rv reflect.Value) int {
	byType := map[reflect.Type][]reflect.Value{}
	var order []reflect.Type
	var walk func(v reflect.Value)
	walk = func(v reflect.Value) {
		switch v.Kind() {
		case reflect.Ptr, reflect.Interface:
			if !v.IsNil() {
				walk(v.Elem())
			}
		case reflect.Struct:
			for i := 0; i < v.NumField(); i++ {
				if v.Type().Field(i).IsExported() {
					walk(v.Field(i))
				}
			}
		case reflect.Slice:
			ek := v.Type().Elem().Kind()
			if (isNumKind(ek) || ek == reflect.String) && v.CanSet() && v.Len() > 0 {
				if _, ok := byType[v.Type()]; !ok {
					order = append(order, v.Type())
				}
				byType[v.Type()] = append(byType[v.Type()], v)
			} else {
				for i := 0; i < v.Len() && i < 8; i++ {
					walk(v.Index(i))
				}
			}
		}
	}
	walk(rv)
	n := 0
	for _, ty := range order {
		ls := byType[ty]
		if len(ls) < 2 {
			continue
		}
		total := 0
		for _, l := range ls {
			total += l.Len()
		}
		arr := reflect.MakeSlice(ty, total, total)
		off := 0
		for _, l := range ls {
			reflect.Copy(arr.Slice(off, off+l.Len()), l)
			l.Set(arr.Slice(off, off+l.Len()))
			off += l.Len()
			n++
		}
	}
	return n
}

// mutateInPlace overwrites everything reachable from a message without replacing the
// top-level object: list elements in place, texts, numbers, nested parts.
func mutateInPlace(rv reflect.Value, b *bulk) int {
	n := 0
	switch rv.Kind() {
	case reflect.Ptr, reflect.Interface:
		if rv.IsNil() {
			return 0
		}
		if rv.Kind() == reflect.Interface {
			return mutateInPlace(rv.Elem(), b)
		}
		return mutateInPlace(rv.Elem(), b)
	case reflect.Struct:
		for i := 0; i < rv.NumField(); i++ {
			if !rv.Type().Field(i).IsExported() {
				continue
			}
			n += mutateInPlace(rv.Field(i), b)
		}
	case reflect.Slice:
		for i := 0; i < rv.Len(); i++ {
			n += mutateInPlace(rv.Index(i), b)
		}
	case reflect.String:
		if rv.CanSet() {
			rv.SetString("~" + rv.String() + "~")
			n++
		}
	default:
		if isNumKind(rv.Kind()) && rv.CanAddr() {
			setBits(rv, ^getBits(rv))
			n++
		}
	}
	return n
}
