package main

import (
	"bytes"
	"fmt"
	"math"
	"sort"
	"strings"
	"time"

	"github.com/anishathalye/porcupine"
	"github.com/xinchentechnote/fin-proto-go/codec"
	"github.com/xinchentechnote/fin-proto-go/simrt"
)

// schedPlan holds every scheduling decision of a run, drawn from the tape BEFORE the
// simulation starts: the scheduler callbacks only index into it (they run on task goroutines
// whose hand-offs are hidden from the race detector, so they must not touch shared harness
// memory that the detector watches).
type schedPlan struct {
	gaps  []int64
	picks []int
	gi    int
	pi    int
}

const schedDecisions = 48

func drawSchedPlan(t *Tape) (*schedPlan, string) { return drawSchedPlanN(t, schedDecisions, false) }

// drawSchedPlanN: n scheduling decisions; long = runs with many tasks, where the preemption
// gaps are also drawn from longer means so that the decisions are not used up before the tasks
// have got anywhere.
func drawSchedPlanN(t *Tape, n int, long bool) (*schedPlan, string) {
	means := []float64{0, 1, 3, 10, 40}
	if long {
		means = []float64{3, 10, 40, 150, 600}
	}
	mi := t.Intn(len(means))
	mean := means[mi]
	p := &schedPlan{}
	for i := 0; i < n; i++ {
		v := t.Draw(65536)
		switch {
		case v == 0 || mean == 0:
			p.gaps = append(p.gaps, -1) // never preempt again
		default:
			u := float64(v) / 65536
			p.gaps = append(p.gaps, int64(-math.Log(u)*mean))
		}
		p.picks = append(p.picks, int(t.Draw(64)))
	}
	// order of every map iteration the library performs in this run (0 = sorted keys)
	ms := t.Draw(1 << 32)
	simrt.SetMapSeed(ms)
	return p, fmt.Sprintf("mean preemption gap %v statements, map-iteration seed %d", mean, ms)
}

//go:norace
func (p *schedPlan) NextGap() int64 {
	if p.gi >= len(p.gaps) {
		return -1
	}
	g := p.gaps[p.gi]
	p.gi++
	if g < 0 {
		p.gi = len(p.gaps)
	}
	return g
}

//go:norace
func (p *schedPlan) Pick(n int) int {
	if p.pi >= len(p.picks) {
		return 0
	}
	k := p.picks[p.pi] % n
	p.pi++
	return k
}

func renderSwitches(sw []simrt.Switch) []string {
	var out []string
	for i, s := range sw {
		if i >= 64 {
			out = append(out, fmt.Sprintf("…(%d more switches)", len(sw)-i))
			break
		}
		out = append(out, fmt.Sprintf("tick %d: task %d -> task %d at %s (%s)", s.Tick, s.From, s.To, siteName(s.Site), s.Why))
	}
	return out
}

func interleavingHash(sw []simrt.Switch) uint64 {
	h := uint64(1469598103934665603)
	for _, s := range sw {
		h = mix64(h, uint64(s.From)<<40|uint64(s.To)<<32|uint64(s.Site))
	}
	return h
}

// ---------------------------------------------------------------- C19: checksum-service registry

type regSvc struct {
	name string
	id   int
}

func (s *regSvc) Algorithm() string { return s.name }

type notAService struct{ x int }

// a service whose Algorithm() panics (a typed-nil pointer reading a field would): the caller
// recovers; the registry must be usable afterwards
type panickyService struct{}

func (panickyService) Algorithm() string { panic("Algorithm() of a broken service") }

const (
	opRegistry = iota
	opRegistryNonService
	opGet
	opRemove
	opClear
	opRegistryPanicky
)

type regOp struct {
	Kind int
	Name string
	ID   int
	// results
	OK      bool
	GotID   int
	GotName string
	Call    uint64
	Ret     uint64
	Done    bool
}

func (o *regOp) String() string {
	switch o.Kind {
	case opRegistry:
		return fmt.Sprintf("Registry(svc#%d as %q) -> %v", o.ID, o.Name, o.OK)
	case opRegistryNonService:
		return fmt.Sprintf("Registry(non-service) -> %v", o.OK)
	case opRegistryPanicky:
		return "Registry(service whose Algorithm() panics; caller recovers)"
	case opGet:
		if o.OK {
			return fmt.Sprintf("Get(%q) -> svc#%d(%q), true", o.Name, o.GotID, o.GotName)
		}
		return fmt.Sprintf("Get(%q) -> nil, false", o.Name)
	case opRemove:
		return fmt.Sprintf("Remove(%q)", o.Name)
	}
	return "Clear()"
}

type regInput struct {
	Kind int
	Name string
	ID   int
}
type regOutput struct {
	OK bool
	ID int
}

func encodeRegState(m map[string]int) string {
	ks := make([]string, 0, len(m))
	for k := range m {
		ks = append(ks, k)
	}
	sort.Strings(ks)
	var b strings.Builder
	for _, k := range ks {
		fmt.Fprintf(&b, "%s=%d;", k, m[k])
	}
	return b.String()
}

func decodeRegState(s string) map[string]int {
	m := map[string]int{}
	for _, kv := range strings.Split(s, ";") {
		if kv == "" {
			continue
		}
		var k string
		var v int
		i := strings.IndexByte(kv, '=')
		k = kv[:i]
		fmt.Sscanf(kv[i+1:], "%d", &v)
		m[k] = v
	}
	return m
}

// the sequential specification: one map from algorithm name to service
var regModel = porcupine.Model{
	Init: func() interface{} { return "" },
	Step: func(state, input, output interface{}) (bool, interface{}) {
		st := decodeRegState(state.(string))
		in := input.(regInput)
		out := output.(regOutput)
		switch in.Kind {
		case opRegistry:
			_, exists := st[in.Name]
			if out.OK != !exists {
				return false, state
			}
			if !exists {
				st[in.Name] = in.ID
			}
			return true, encodeRegState(st)
		case opRegistryNonService:
			return !out.OK, state
		case opRegistryPanicky:
			return true, state
		case opGet:
			id, exists := st[in.Name]
			if exists {
				return out.OK && out.ID == id, state
			}
			return !out.OK, state
		case opRemove:
			delete(st, in.Name)
			return true, encodeRegState(st)
		case opClear:
			return true, ""
		}
		return false, state
	},
	Equal: func(a, b interface{}) bool { return a.(string) == b.(string) },
	DescribeOperation: func(input, output interface{}) string {
		return fmt.Sprintf("%+v -> %+v", input, output)
	},
}

// registryConfig is a configuration fault for the single-task scenarios: the process runs with
// one checksum service unregistered, or with none (codec.Remove / codec.Clear are public API and
// the frame encoders explicitly support running without a service).  It returns what it did and
// a function that restores the four built-in services.
func registryConfig(c *RunCtx, t *Tape) (string, func()) { return registryConfigX(c, t, true) }

// user implementations of the three frame checksum algorithms that CONSUME the buffer they are
// given while computing the right value: legal for a ChecksumService (the library hands it a
// throw-away view), and what tells a view from the caller's live buffer
type readingSSE struct{}

func (readingSSE) Algorithm() string { return "SSE_BIN" }
func (readingSSE) Calc(b *bytes.Buffer) uint32 {
	v := refSum8(b.Bytes())
	b.Next(b.Len())
	return v
}

type readingSZSE struct{}

func (readingSZSE) Algorithm() string { return "SZSE_BIN" }
func (readingSZSE) Calc(b *bytes.Buffer) int32 {
	v := refSum8(b.Bytes())
	b.Next(b.Len())
	return int32(v)
}

type readingCRC32 struct{}

func (readingCRC32) Algorithm() string { return "CRC32" }
func (readingCRC32) Calc(b *bytes.Buffer) uint32 {
	v := refCRC32(b.Bytes())
	b.Next(b.Len())
	return v
}

// registryConfigX: allowMissing=false restricts the fault to configurations in which every
// service is still present (used where the property needs the checksum to be computed).
func registryConfigX(c *RunCtx, t *Tape, allowMissing bool) (string, func()) {
	k := t.Intn(12)
	if k == 9 {
		codec.Remove("SSE_BIN")
		codec.Remove("SZSE_BIN")
		codec.Remove("CRC32")
		codec.Registry(readingSSE{})
		codec.Registry(readingSZSE{})
		codec.Registry(readingCRC32{})
		c.Fire("cfg.user-checksum-services")
		return "frame checksum services replaced by user implementations that read (consume) the buffer they are given", restoreBuiltins
	}
	if k == 8 && t.Intn(2) == 0 {
		// the service was absent for a while and is back: unregistered, the process went on (a
		// look-up and a frame encode found nothing), then the application registered it again.
		// From here on the registry is complete, so every oracle applies - unless something
		// remembered the miss
		i := t.Intn(3)
		name := []string{"SSE_BIN", "SZSE_BIN", "CRC32"}[i]
		frame := []string{"sse.SseBinary", "szse.SzseBinary", "sample.RootPacket"}[i]
		if t.Intn(3) == 0 {
			codec.Clear()
		} else {
			codec.Remove(name)
		}
		codec.Get(name)
		g := &Gen{t: t, cfg: GenCfg{ListCap: 1, StrCap: 4}}
		var scratch bytes.Buffer
		tryEncode(g.Value(frame), &scratch)
		for _, svc := range []any{&codec.Crc16ChecksumService{}, &codec.Crc32ChecksumService{}, &codec.SseBinChecksumService{}, &codec.SzseBinChecksumService{}} {
			codec.Registry(svc) // the ones still present refuse the duplicate
		}
		c.Fire("hist.service-absent-then-registered-again")
		c.Logf("PROCESS HISTORY: checksum service %s was unregistered, looked up and a %s encoded meanwhile, then registered again", name, frame)
		return "", func() {}
	}
	if !allowMissing {
		return "", func() {}
	}
	switch k {
	case 10:
		name := []string{"CRC16", "CRC32", "SSE_BIN", "SZSE_BIN"}[t.Intn(4)]
		codec.Remove(name)
		c.Fire("cfg.service-removed")
		return "checksum service " + name + " unregistered", restoreBuiltins
	case 11:
		codec.Clear()
		c.Fire("cfg.registry-cleared")
		return "checksum registry cleared", restoreBuiltins
	}
	return "", func() {}
}

func restoreBuiltins() {
	codec.Clear()
	codec.Registry(&codec.Crc16ChecksumService{})
	codec.Registry(&codec.Crc32ChecksumService{})
	codec.Registry(&codec.SseBinChecksumService{})
	codec.Registry(&codec.SzseBinChecksumService{})
}

func init() {
	register(&scenario{
		Prop: "C19", Run: runC19, Race: true, RunsPerProcess: 200, Level: "exploration", Quick: 250000, Thorough: 3000000, AbortIsViolation: true,
		Rule:        "one run = 2-4 client tasks x 1-6 operations over 1-3 algorithm names drawn from {Registry(distinct service object with unique id), Registry(non-service), Get, Remove, Clear} against the real codec registry, optionally pre-populated; a seeded scheduler switches tasks at instrumented statements of codec/checksum.go and at every lock operation (mean preemption gap per run from {never,1,3,10,40} statements), blocked lock waiters are woken in seeded order. Oracles: (i) the recorded history (invoke/return stamped with the scheduler's global event sequence) is linearizable w.r.t. a sequential map model (porcupine; Unknown = inconclusive, never reported); a Get never returns a service registered under another name; (ii) Go race detector with scheduler hand-offs hidden from it, so only the library's own locking orders accesses (a report kills the worker, is attributed, re-executed and reported); (iii) deadlock / unlock-of-unlocked monitor; (iv) all operations complete within the run's step budget. Non-trivial = at least one context switch happened inside an operation and the history was checked; distinct = distinct run fingerprints (tape draws + observed results + interleaving).",
		Assumptions: []string{"linearizability only: no fairness or lock hand-off order is asserted", "race reports are attributed to the library only when a library frame is on a reported stack"},
	})
}

func runC19(c *RunCtx) {
	t := c.T
	names := []string{"ALG_A", "ALG_B", "ALG_C"}[:1+t.Intn(3)]
	if t.Intn(4) == 0 {
		// names that differ only by case, by a trailing blank, or are empty: distinct keys of one map
		names = [][]string{{"ALG_A", "alg_a"}, {"ALG_A", "ALG_A "}, {"", "ALG_A"}, {"CRC32", "crc32", "CRC32 "}}[t.Intn(4)]
	}
	ntasks := 2 + t.Intn(3)
	if c.Thorough && t.Intn(4) == 0 {
		ntasks = 5 + t.Intn(2) // deeper tier: more clients, same cap of 24 operations per history
	}
	nextID := 100
	var pre []*regSvc
	// initial state
	initial := map[string]int{}
	for _, n := range names {
		if t.Intn(3) == 2 {
			s := &regSvc{name: n, id: nextID}
			nextID++
			pre = append(pre, s)
			initial[n] = s.id
		}
	}
	crowded := 0
	if t.Intn(6) == 0 {
		// a crowded registry: 6-12 further services registered before everything else, two of
		// which the clients also operate on (small fixed-size tables with overflow areas)
		crowded = 6 + t.Intn(7)
		names = append([]string{"FILL_0", "FILL_1"}, names...)
		if len(names) > 4 {
			names = names[:4]
		}
	}
	untouched := false
	if crowded == 0 && t.Intn(4) == 0 {
		// the four built-in services as package init registered them (ids 1..4 by name)
		untouched = true
		names = []string{"CRC16", "CRC32", "SSE_BIN", "SZSE_BIN"}[:1+t.Intn(4)]
		pre = nil
		initial = map[string]int{"CRC16": 1, "CRC32": 2, "SSE_BIN": 3, "SZSE_BIN": 4}
	}
	plans := make([][]*regOp, ntasks)
	svcs := map[int]*regSvc{}
	total := 0
	for ti := range plans {
		nops := 1 + t.Intn(6)
		for j := 0; j < nops && total < 24; j++ {
			op := &regOp{Name: names[t.Intn(len(names))]}
			switch k := t.Intn(10); {
			case k <= 3:
				op.Kind = opRegistry
				op.ID = nextID
				svcs[nextID] = &regSvc{name: op.Name, id: nextID}
				nextID++
			case k <= 6:
				op.Kind = opGet
			case k == 7:
				op.Kind = opRemove
			case k == 8:
				op.Kind = opClear
			default:
				op.Kind = opRegistryNonService
				if t.Intn(3) == 0 {
					op.Kind = opRegistryPanicky
				}
			}
			plans[ti] = append(plans[ti], op)
			total++
		}
	}
	sp, sdesc := drawSchedPlan(t)
	// history of the registry before the clients start: usually emptied and pre-populated; or
	// (untouched) exactly as package init left it, so that the first modification of the process
	// happens under concurrency; optionally after a long sequential churn of registrations and
	// removals (counters and thresholds inside the registry)
	var fillers []*regSvc
	churn := 0
	switch t.Intn(10) {
	case 7:
		sizes := []int{63, 127, 255, 256, 257, 511}
		if c.Thorough {
			sizes = append(sizes, 1023, 4095, 65535)
		}
		churn = sizes[t.Intn(len(sizes))] - t.Intn(7)
	case 8:
		churn = 250 + t.Intn(8)
	case 9:
		churn = t.Intn(40)
	}
	c.Logf("REGISTRY initially %v (untouched since init: %v; sequential churn before the clients: %d register+remove pairs); %d tasks; scheduler: %s", initial, untouched, churn, ntasks, sdesc)
	defer restoreBuiltins()
	if !untouched {
		codec.Clear()
		for i := 0; i < crowded; i++ {
			fs := &regSvc{name: fmt.Sprintf("FILL_%d", i), id: 50 + i}
			codec.Registry(fs)
			fillers = append(fillers, fs)
		}
		for _, s := range pre {
			codec.Registry(s)
		}
	}
	for i := 0; i < churn; i++ {
		cs := &regSvc{name: fmt.Sprintf("CHURN_%d", i), id: -2}
		codec.Registry(cs)
		codec.Remove(cs.name)
	}
	if churn > 0 {
		c.Fire("hist.registry-churn")
	}
	if untouched {
		c.Fire("hist.registry-untouched-since-init")
	}

	sched := simrt.NewSched(sp.NextGap, sp.Pick)
	for ti := range plans {
		ops := plans[ti]
		sched.Spawn(fmt.Sprintf("client%d", ti), func() {
			for _, op := range ops {
				op.Call = simrt.Stamp()
				switch op.Kind {
				case opRegistry:
					op.OK = codec.Registry(svcs[op.ID])
				case opRegistryNonService:
					op.OK = codec.Registry(&notAService{1})
				case opRegistryPanicky:
					func() {
						defer func() { recover() }()
						codec.Registry(panickyService{})
					}()
				case opGet:
					v, ok := codec.Get(op.Name)
					op.OK = ok
					if s, isSvc := v.(*regSvc); isSvc && s != nil {
						op.GotID, op.GotName = s.id, s.name
					} else if a, isAlgo := v.(interface{ Algorithm() string }); ok && isAlgo {
						op.GotName = a.Algorithm()
						op.GotID = map[string]int{"CRC16": 1, "CRC32": 2, "SSE_BIN": 3, "SZSE_BIN": 4}[op.GotName]
					} else if ok {
						op.GotID, op.GotName = -1, fmt.Sprintf("%T", v)
					}
				case opRemove:
					codec.Remove(op.Name)
				case opClear:
					codec.Clear()
				}
				op.Ret = simrt.Stamp()
				op.Done = true
			}
		})
	}
	simrt.SetBudget(200000)
	deadlock := sched.Run()
	blown := simrt.BudgetBlown()
	simrt.SetBudget(0)
	c.Count("switches", sched.NSwitches)
	c.Count("switches_inside_operations", sched.NPreempt)
	c.Count("lock_contended", sched.Contended)
	if sched.Contended > 0 {
		c.Probe("lock-contended")
	}
	if sched.ReaderOvertake > 0 {
		c.Probe("reader-admitted-while-writer-waiting")
	}
	if sched.NPreempt > 0 {
		c.Fire("sched.switch")
	}
	if c.Tracing {
		for ti, ops := range plans {
			for _, op := range ops {
				if op.Done {
					c.Logf("client%d [%d,%d] %s", ti, op.Call, op.Ret, op)
				} else {
					c.Logf("client%d (never returned) %s", ti, op)
				}
			}
		}
		for _, l := range renderSwitches(sched.Switches) {
			c.Logf("SCHED %s", l)
		}
	}
	ih := interleavingHash(sched.Switches)
	c.T.Observe(ih)
	c.Aux = ih
	// (iii) monitors
	for _, tk := range sched.Tasks() {
		if tk.Panic != nil {
			switch p := tk.Panic.(type) {
			case simrt.LibraryFatal:
				c.Fail("C19/fatal", "", "the registry did what aborts a real process: %s", p.Msg)
			case simrt.BudgetExceeded:
				c.Fail("C19/no-progress", "", "registry operations did not complete within 200000 logical steps")
			default:
				c.Fail("C19/panic", "", "a registry call panicked: %v\n%s", tk.Panic, head(string(tk.Stack), 1200))
			}
			return
		}
	}
	if deadlock != "" {
		c.Fail("C19/deadlock", "", "%s", deadlock)
		return
	}
	if blown {
		c.Fail("C19/no-progress", "", "registry operations did not complete within 200000 logical steps")
		return
	}
	// (i) linearizability
	var hist []porcupine.Operation
	for ti, ops := range plans {
		for _, op := range ops {
			if !op.Done {
				infraFatal("operation not completed without deadlock")
			}
			if op.Kind == opGet && op.OK && op.GotName != op.Name {
				c.Oracle("get-returns-right-name")
				c.Fail("C19/wrong-name", "", "Get(%q) returned a service whose algorithm is %q", op.Name, op.GotName)
				return
			}
			hist = append(hist, porcupine.Operation{ClientId: ti, Input: regInput{op.Kind, op.Name, op.ID}, Call: int64(op.Call), Output: regOutput{op.OK, op.GotID}, Return: int64(op.Ret)})
			c.T.Observe(uint64(op.GotID)<<8 | uint64(b2i(op.OK)))
		}
	}
	// the initial state enters the history as registrations that completed before everything
	var full []porcupine.Operation
	for i, s := range pre {
		full = append(full, porcupine.Operation{ClientId: ntasks, Input: regInput{opRegistry, s.name, s.id}, Call: int64(-100 + 2*i), Output: regOutput{true, 0}, Return: int64(-99 + 2*i)})
	}
	for i, s := range fillers {
		full = append(full, porcupine.Operation{ClientId: ntasks, Input: regInput{opRegistry, s.name, s.id}, Call: int64(-200 + 2*i), Output: regOutput{true, 0}, Return: int64(-199 + 2*i)})
	}
	if untouched {
		for i, n := range []string{"CRC16", "CRC32", "SSE_BIN", "SZSE_BIN"} {
			full = append(full, porcupine.Operation{ClientId: ntasks, Input: regInput{opRegistry, n, i + 1}, Call: int64(-100 + 2*i), Output: regOutput{true, 0}, Return: int64(-99 + 2*i)})
		}
	}
	full = append(full, hist...)
	c.Oracle("linearizable")
	res := porcupine.CheckOperationsTimeout(regModel, full, 10*time.Second)
	switch res {
	case porcupine.Illegal:
		var lines []string
		for ti, ops := range plans {
			for _, op := range ops {
				lines = append(lines, fmt.Sprintf("client%d [%d,%d] %s", ti, op.Call, op.Ret, op))
			}
		}
		c.Fail("C19/not-linearizable", "", "no sequential order of the calls consistent with real time explains the results (initial registry %v):\n%s", initial, strings.Join(lines, "\n"))
	case porcupine.Unknown:
		c.Probe("porcupine-inconclusive(timeout)")
	}
}

func b2i(b bool) int {
	if b {
		return 1
	}
	return 0
}

// ---------------------------------------------------------------- C20: independent messages in parallel

// One operation of a task: encode the task's own message into its own buffer and, optionally,
// decode bytes into its own receiver - the bytes just produced, or those bytes after a stream
// fault (so that the error paths, unknown discriminators included, run concurrently too).
type parOp struct {
	name     string
	msg      any // the task's own message object (encoded in place)
	pre      any // clone taken before any library call
	buf      *bytes.Buffer
	doDecode bool
	fault    int      // 0 none, 1 unknown discriminator, 2 bit flips, 3 connection cut
	ftape    []uint64 // pre-drawn choices for the fault (tasks never touch the run's tape)
	recv     any
	// results
	encRes callLite
	decRes callLite
	out    []byte // bytes appended by Encode
	in     []byte // bytes given to Decode
	fdesc  string
	left   int
	prior  []byte // unread content of the task's buffer before its Encode
	reuse  bool   // the receiver decodes: the complete message, the faulted bytes, the complete message again
	final  []byte // input of the last decode (whose result is compared)
}

type callLite struct {
	Err   error
	Panic any
}

func liteCall(f func() error) (r callLite) {
	defer func() {
		if p := recover(); p != nil {
			r.Panic = p
		}
	}()
	r.Err = f()
	return
}

// types that consult a discriminator table (frames and extended messages): where a lazily
// built or cached dispatch structure would live
var discTypesCache []string

func discTypes() []string {
	if discTypesCache == nil {
		for _, n := range schema.Names {
			if schema.Types[n].Table != "" {
				discTypesCache = append(discTypesCache, n)
			}
		}
	}
	return discTypesCache
}

func init() {
	register(&scenario{
		Prop: "C20", Run: runC20, Race: true, Level: "exploration", Quick: 80000, Thorough: 2400000, AbortIsViolation: true, RunsPerProcess: 100,
		Rule:        "one run = 2-4 tasks, each performing 1-4 operations on its own objects: encode its own canonical message (any of the 170 types, mixed protocols, frames included so the registry read lock and the discriminator tables are exercised) into its own buffer and then, for about half of them, decode bytes into its own receiver - the bytes just produced, or those bytes after a stream fault (unknown discriminator, bit flips, cut) so that error paths run concurrently too. In one run of three all tasks use the same discriminator-carrying type (collision on one dispatch table). No library call precedes the tasks in the run, the 'alone' results are computed sequentially AFTER the parallel phase, and worker processes are restarted every 100 runs, so the first run of each process exercises a cold library (lazily built tables). A seeded scheduler switches tasks at instrumented statements of codec/ and the message packages (mean preemption gap per run from {never,1,3,10,40} statements); sync.Pool/Once/Mutex, go statements and map iteration order, should the tree use any, are under the simulator. Oracles: every task's bytes/messages/errors equal what the same operation produces alone on clones; Go race detector with scheduler hand-offs hidden from it; deadlock monitor. Non-trivial = at least one context switch landed inside a codec call and the comparison ran; distinct = distinct run fingerprints (tape draws + interleaving + outputs).",
		Assumptions: []string{"'alone' results are computed in the same process after the tasks have finished, on clones of the same values", "race reports are attributed to the library only when a library frame is on a reported stack"},
	})
}

func runC20(c *RunCtx) {
	t := c.T
	g := &Gen{t: t, cfg: drawCfg(t, c.Thorough)}
	g.cfg.WrapObj = false // 64 KiB object lists in up to 16 tasks under the race detector: seconds per run
	if g.cfg.ListCap > 300 {
		g.cfg.ListCap = 300
	}
	if g.cfg.StrCap > 600 {
		g.cfg.StrCap = 600
	}
	collide := ""
	if t.Intn(3) == 0 {
		dt := discTypes()
		collide = dt[t.Intn(len(dt))]
		c.Probe("all-tasks-on-one-discriminator-table")
	}
	ntasks := 2 + t.Intn(3)
	if c.Thorough && t.Intn(4) == 0 {
		ntasks = 5 + t.Intn(4)
	}
	if t.Intn(16) == 0 {
		// many goroutines inside the library at once (process-wide counters, limits, semaphores),
		// half of the time all inside the same kind of helper: messages with object lists
		ntasks = 9 + t.Intn(8)
		c.Probe("many-tasks")
		if t.Intn(2) == 0 {
			var ol []string
			for _, n := range schema.Names {
				for i := range schema.Types[n].Fields {
					if schema.Types[n].Fields[i].Kind == "objlist" {
						ol = append(ol, n)
						break
					}
				}
			}
			if len(ol) > 0 {
				collide = ol[t.Intn(len(ol))]
				if g.cfg.ListCap < 3 {
					g.cfg.ListCap = 3
				}
			}
		}
	}
	var base any
	plans := make([][]*parOp, ntasks)
	for ti := range plans {
		nops := 1 + t.Intn(4)
		for j := 0; j < nops; j++ {
			name := collide
			if name == "" {
				name = pickType(t, 5)
			}
			m := g.Value(name)
			if collide != "" && base != nil && t.Intn(2) == 0 {
				m = variantOf(base, t.Bulk()) // close relatives of one message in different tasks
			}
			if base == nil {
				base = Clone(m)
			}
			op := &parOp{name: name, msg: m, pre: Clone(m), buf: &bytes.Buffer{}}
			if t.Intn(3) == 0 {
				// the task's send buffer already holds unread bytes (earlier frames of its own)
				op.prior = noise(t, 1+t.Intn(200))
				op.buf = bytes.NewBuffer(cloneBytes(op.prior))
			}
			if t.Intn(2) == 0 {
				op.doDecode = true
				op.recv = newValue(name)
				if t.Intn(3) == 0 {
					op.fault = 1 + t.Intn(3)
					for k := 0; k < 12; k++ {
						op.ftape = append(op.ftape, t.Bits())
					}
					// a receive loop's receiver: it decoded the complete message, then the faulted
					// bytes (which usually fails), then the complete message again - what a retry after
					// a short read or a resynchronisation looks like.  The same sequence is repeated
					// alone afterwards, so that only interference between tasks can make a difference
					op.reuse = t.Intn(2) == 0
				}
			}
			c.Count("type."+name, 1)
			plans[ti] = append(plans[ti], op)
		}
	}
	sp, sdesc := drawSchedPlanN(t, map[bool]int{false: schedDecisions, true: 256}[ntasks >= 9], ntasks >= 9)
	c.Logf("%d tasks; scheduler: %s", ntasks, sdesc)
	sched := simrt.NewSched(sp.NextGap, sp.Pick)
	for ti := range plans {
		ops := plans[ti]
		sched.Spawn(fmt.Sprintf("worker%d", ti), func() {
			for _, op := range ops {
				cd := asCodec(op.msg)
				op.encRes = liteCall(func() error { return cd.Encode(op.buf) })
				op.out = cloneBytes(op.buf.Bytes())
				if len(op.out) >= len(op.prior) {
					op.out = op.out[len(op.prior):]
				}
				if !op.doDecode || op.encRes.Err != nil || op.encRes.Panic != nil {
					op.doDecode = false
					continue
				}
				op.in = op.out
				op.fdesc = "the bytes just encoded"
				if op.fault != 0 {
					ft := ReplayTape(op.ftape)
					spans, total := Layout(op.msg)
					if total != len(op.out) {
						spans = nil
					}
					switch op.fault {
					case 1:
						w, d, ok := unknownDiscriminator(ft, op.out, spans)
						if ok {
							op.in, op.fdesc = w, d
						} else {
							op.in, op.fdesc = flipBits(ft, op.out, spans)
						}
					case 2:
						op.in, op.fdesc = flipBits(ft, op.out, spans)
					default:
						if len(op.out) > 0 {
							k := ft.Intn(len(op.out))
							op.in, op.fdesc = op.out[:k], fmt.Sprintf("cut(%d of %d)", k, len(op.out))
						}
					}
				}
				rd := asCodec(op.recv)
				decodeInto := func(in []byte) (callLite, int) {
					src := cloneBytes(in)
					rb := bytes.NewBuffer(src)
					res := liteCall(func() error { return rd.Decode(rb) })
					left := rb.Len()
					for i := range src {
						src[i] ^= 0x5C // the task recycles its receive buffer at once
					}
					return res, left
				}
				op.final = op.in
				if op.reuse {
					decodeInto(op.out)
					decodeInto(op.in)
					op.final = op.out
				}
				op.decRes, op.left = decodeInto(op.final)
			}
		})
	}
	simrt.SetBudget(50_000_000)
	deadlock := sched.Run()
	blown := simrt.BudgetBlown()
	simrt.SetBudget(0)
	c.Count("switches", sched.NSwitches)
	c.Count("switches_inside_operations", sched.NPreempt)
	if sched.NPreempt > 0 {
		c.Fire("sched.switch")
	}
	if sched.Contended > 0 {
		c.Probe("lock-contended")
	}
	c.Aux = interleavingHash(sched.Switches)
	c.T.Observe(c.Aux)
	if c.Tracing {
		for ti, ops := range plans {
			for _, op := range ops {
				if op.doDecode {
					c.Logf("worker%d Encode %s, then Decode %s", ti, op.name, op.fdesc)
				} else {
					c.Logf("worker%d Encode %s", ti, op.name)
				}
			}
		}
		for _, l := range renderSwitches(sched.Switches) {
			c.Logf("SCHED %s", l)
		}
	}
	for _, tk := range sched.Tasks() {
		if tk.Panic != nil {
			if _, ok := tk.Panic.(simrt.BudgetExceeded); ok {
				c.Fail("C20/no-progress", "", "parallel encode/decode did not finish within the step budget")
				return
			}
			if lf, ok := tk.Panic.(simrt.LibraryFatal); ok {
				c.Fail("C20/fatal", "", "%s", lf.Msg)
				return
			}
			infraFatal("task panicked outside a guarded library call: %v\n%s", tk.Panic, tk.Stack)
		}
	}
	if deadlock != "" {
		c.Fail("C20/deadlock", "", "%s", deadlock)
		return
	}
	if blown {
		c.Fail("C20/no-progress", "", "parallel encode/decode did not finish within the step budget")
		return
	}
	// the same operations alone, afterwards, on clones
	for ti, ops := range plans {
		for _, op := range ops {
			c.Oracle("parallel-equals-alone")
			ab := *bytes.NewBuffer(cloneBytes(op.prior))
			ar := tryEncode(Clone(op.pre), &ab)
			if ab.Len() >= len(op.prior) {
				ab.Next(len(op.prior))
			}
			aFailed := ar.Err != nil || ar.Panic != nil
			pFailed := op.encRes.Err != nil || op.encRes.Panic != nil
			if aFailed != pFailed {
				c.Fail("C20/differs-from-alone", op.name, "worker%d: Encode of %s in parallel: err=%v panic=%v; alone: err=%v panic=%v", ti, op.name, op.encRes.Err, op.encRes.Panic, ar.Err, ar.Panic)
				return
			}
			if aFailed {
				c.Probe("encode-fails-alone-and-in-parallel")
				continue
			}
			c.T.ObserveBytes(op.out)
			if !bytes.Equal(op.out, ab.Bytes()) {
				c.Fail("C20/differs-from-alone", op.name, "worker%d: Encode of %s produced %s in parallel but %s alone (first difference at %d)", ti, op.name, hexClip(op.out, 64), hexClip(ab.Bytes(), 64), firstDiff(op.out, ab.Bytes()))
				return
			}
			if !op.doDecode {
				continue
			}
			if op.fault != 0 {
				c.Probe("parallel-decode-of-faulted-bytes")
			}
			ref := newValue(op.name)
			if op.reuse {
				c.Probe("parallel-decode-retry-into-the-same-receiver")
				tryDecode(ref, bytes.NewBuffer(cloneBytes(op.out)))
				tryDecode(ref, bytes.NewBuffer(cloneBytes(op.in)))
			}
			arb := bytes.NewBuffer(cloneBytes(op.final))
			dr := tryDecode(ref, arb)
			aFailed = dr.Err != nil || dr.Panic != nil
			pFailed = op.decRes.Err != nil || op.decRes.Panic != nil
			if aFailed != pFailed || (dr.Panic != nil) != (op.decRes.Panic != nil) {
				c.Fail("C20/differs-from-alone", op.name, "worker%d: Decode of %s (%s) in parallel: err=%v panic=%v; alone: err=%v panic=%v", ti, op.name, op.fdesc, op.decRes.Err, op.decRes.Panic, dr.Err, dr.Panic)
				return
			}
			if aFailed {
				continue
			}
			if op.left != arb.Len() {
				c.Fail("C20/differs-from-alone", op.name, "worker%d: Decode of %s left %d bytes unread in parallel, %d alone", ti, op.name, op.left, arb.Len())
				return
			}
			if ok, d := Equal(ref, op.recv); !ok {
				c.Fail("C20/differs-from-alone", op.name, "worker%d: Decode of %s in parallel differs from the result alone at %s", ti, op.name, d)
				return
			}
		}
	}
}
