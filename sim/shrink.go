package main

import (
	"encoding/json"
	"flag"
	"fmt"
	"os"
	"path/filepath"
	"strings"
	"sync"
	"sync/atomic"
	"time"
)

// candidate execution: a tape is written to a temp file and run by `simcheck exec` in a
// fresh process; the violation class (oracle clause or fatal kind) is what must persist.

type tapeRunner struct {
	exe, prop, tier, known, dir string
	n                           int
	mu                          sync.Mutex
	tries                       int // executions per candidate before it counts as "does not fail" (1 unless the tree under test proved nondeterministic)
	seed                        uint64
	prelude                     []uint64 // run indices executed in the same process before the candidate
}

func joinIdx(v []uint64) string {
	parts := make([]string, len(v))
	for i, x := range v {
		parts[i] = fmt.Sprint(x)
	}
	return strings.Join(parts, ",")
}

// preludeValue renders a list of run indices for the -prelude flag.  A long list (a worker had
// executed hundreds of thousands of runs before the violating one) does not fit a command-line
// argument (Linux: 128 KiB per string), so it goes into a file and the flag says "@<file>";
// cleanup removes that file.
var preludeFileSeq atomic.Uint64

func preludeValue(prelude []uint64) (val string, cleanup func()) {
	val = joinIdx(prelude)
	if len(val) < 60000 {
		return val, func() {}
	}
	name := filepath.Join(os.TempDir(), fmt.Sprintf("simcheck-prelude-%d-%d.txt", os.Getpid(), preludeFileSeq.Add(1)))
	if err := os.WriteFile(name, []byte(val), 0o644); err != nil {
		infraFatal("prelude file: %v", err)
	}
	return "@" + name, func() { os.Remove(name) }
}

func preludeArgs(seed uint64, prelude []uint64) (args []string, cleanup func()) {
	if len(prelude) == 0 {
		return nil, func() {}
	}
	v, cl := preludeValue(prelude)
	return []string{"-seed", fmt.Sprint(seed), "-prelude", v}, cl
}

// runFor executes a tape until it fails with the wanted class, at most tr.tries times.
func (tr *tapeRunner) runFor(tape []uint64, class string) childResult {
	var cr childResult
	for i := 0; i < max(tr.tries, 1); i++ {
		cr = tr.run(tape)
		if cr.Infra != "" || classOf(tr.prop, cr) == class {
			break
		}
	}
	return cr
}

func (tr *tapeRunner) run(tape []uint64) childResult {
	tr.mu.Lock()
	tr.n++
	name := filepath.Join(tr.dir, fmt.Sprintf(".cand-%d-%d.json", os.Getpid(), tr.n))
	tr.mu.Unlock()
	b, _ := json.Marshal(tape)
	os.WriteFile(name, b, 0o644)
	defer os.Remove(name)
	args := []string{"exec", "-prop", tr.prop, "-tier", tr.tier, "-tape", name, "-known", tr.known}
	pa, cl := preludeArgs(tr.seed, tr.prelude)
	defer cl()
	return execChild(tr.exe, append(args, pa...), 120*time.Second+time.Duration(len(tr.prelude))*20*time.Millisecond)
}

func classOf(prop string, cr childResult) string {
	if cr.Fatal != "" {
		return prop + "/" + cr.Fatal
	}
	return cr.Class
}

type shrinker struct {
	tr       *tapeRunner
	class    string
	best     []uint64
	bestRes  childResult
	execs    int
	maxExecs int
	deadline time.Time
	accepted int
}

func (s *shrinker) exhausted() bool { return s.execs >= s.maxExecs || time.Now().After(s.deadline) }

// tryBatch evaluates candidates in parallel and adopts the first (in order) that still fails
// with the same class.
func (s *shrinker) tryBatch(cands [][]uint64) bool {
	if len(cands) == 0 || s.exhausted() {
		return false
	}
	res := make([]childResult, len(cands))
	var wg sync.WaitGroup
	for i := range cands {
		wg.Add(1)
		go func(i int) {
			defer wg.Done()
			res[i] = s.tr.runFor(cands[i], s.class)
		}(i)
	}
	wg.Wait()
	s.execs += len(cands)
	for i := range cands {
		if res[i].Infra == "" && classOf(s.tr.prop, res[i]) == s.class {
			out := cands[i]
			if res[i].Res != nil && len(res[i].Res.Tape) > 0 && len(res[i].Res.Tape) <= len(out) {
				out = res[i].Res.Tape // normalised: exactly the draws that were used
			}
			if tapeLess(out, s.best) {
				s.best = out
				s.bestRes = res[i]
				s.accepted++
				return true
			}
		}
	}
	return false
}

func tapeLess(a, b []uint64) bool {
	if len(a) != len(b) {
		return len(a) < len(b)
	}
	for i := range a {
		if a[i] != b[i] {
			return a[i] < b[i]
		}
	}
	return false
}

func (s *shrinker) shrink() {
	const par = 8
	for round := 0; round < 6 && !s.exhausted(); round++ {
		improved := false
		// 1. truncation
		for len(s.best) > 1 && !s.exhausted() {
			n := len(s.best)
			cands := [][]uint64{append([]uint64(nil), s.best[:n/2]...), append([]uint64(nil), s.best[:n*3/4]...), append([]uint64(nil), s.best[:n-1]...)}
			if !s.tryBatch(cands) {
				break
			}
			improved = true
		}
		// 2. delete blocks
		for _, sz := range []int{32, 8, 2, 1} {
			for start := 0; start < len(s.best) && !s.exhausted(); {
				var cands [][]uint64
				var starts []int
				for k := 0; k < par && start+k*sz < len(s.best); k++ {
					st := start + k*sz
					en := min(st+sz, len(s.best))
					c := append(append([]uint64(nil), s.best[:st]...), s.best[en:]...)
					cands = append(cands, c)
					starts = append(starts, st)
				}
				if s.tryBatch(cands) {
					improved = true
					// keep start: content shifted
				} else {
					start += par * sz
				}
			}
		}
		// 3. zero blocks / single entries
		for _, sz := range []int{16, 4, 1} {
			for start := 0; start < len(s.best) && !s.exhausted(); {
				var cands [][]uint64
				for k := 0; k < par && start+k*sz < len(s.best); k++ {
					st := start + k*sz
					en := min(st+sz, len(s.best))
					allZero := true
					for _, v := range s.best[st:en] {
						if v != 0 {
							allZero = false
						}
					}
					if allZero {
						continue
					}
					c := append([]uint64(nil), s.best...)
					for q := st; q < en; q++ {
						c[q] = 0
					}
					cands = append(cands, c)
				}
				if len(cands) > 0 && s.tryBatch(cands) {
					improved = true
				}
				start += par * sz
			}
		}
		// 4. reduce values
		for i := 0; i < len(s.best) && !s.exhausted(); i++ {
			for s.best[i] > 0 && !s.exhausted() {
				v := s.best[i]
				var cands [][]uint64
				for _, nv := range []uint64{v / 2, v - 1} {
					if nv >= v {
						continue
					}
					c := append([]uint64(nil), s.best...)
					c[i] = nv
					cands = append(cands, c)
				}
				if !s.tryBatch(cands) {
					break
				}
				improved = true
				if i >= len(s.best) {
					break
				}
			}
		}
		if !improved {
			break
		}
	}
}

const (
	noReproTries = 12 // fresh executions of a violating run before it is given up as not reproducible
	replayTries  = 30 // executions of a replay file recorded as nondeterministic
	exitNoRepro  = 4  // internal: the candidate did not reproduce; try the next one
)

// handleViolation confirms run `index` in a fresh process, minimises it and writes the replay
// file.  It returns the replay path and exitViolation, or exitInfra if the violation does not
// reproduce (which is a defect of the harness, never reported as a VIOLATION).
func handleViolation(exe string, sc *scenario, tier string, seed, index uint64, class, replayDir, known string, proc procInfo) (string, int) {
	os.MkdirAll(replayDir, 0o755)
	tr := &tapeRunner{exe: exe, prop: sc.Prop, tier: tier, known: known, dir: replayDir, seed: seed}
	var prelude []uint64
	execWith := func(pre []uint64) childResult {
		args := []string{"exec", "-prop", sc.Prop, "-tier", tier, "-seed", fmt.Sprint(seed), "-i", fmt.Sprint(index), "-known", known}
		if len(pre) > 0 {
			v, cl := preludeValue(pre)
			defer cl()
			args = append(args, "-prelude", v)
		}
		return execChild(exe, args, 300*time.Second+time.Duration(len(pre))*20*time.Millisecond)
	}
	execFirst := func() childResult { return execWith(prelude) }
	first := execFirst()
	if first.Infra != "" {
		fmt.Fprintln(os.Stderr, "INFRASTRUCTURE ERROR while confirming run", index, ":", first.Infra)
		return "", exitInfra
	}
	got := classOf(sc.Prop, first)
	if got == "" {
		// Alone in a fresh process the run is clean.  In the batch it was not alone: the same
		// worker process had executed earlier runs, and a tree that keeps state across calls
		// (a learned table, a memo, a lazily built structure) carries it from run to run.  Replay
		// the runs that process had executed before, then minimise that prelude.
		if full := proc.prelude(index); len(full) > 0 {
			if cr := execWith(full); cr.Infra == "" && classOf(sc.Prop, cr) != "" {
				want := classOf(sc.Prop, cr)
				prelude = minimisePrelude(full, func(p []uint64) bool {
					r := execWith(p)
					return r.Infra == "" && classOf(sc.Prop, r) == want
				})
				first = execFirst()
				if first.Infra != "" {
					fmt.Fprintln(os.Stderr, "INFRASTRUCTURE ERROR while confirming run", index, ":", first.Infra)
					return "", exitInfra
				}
				got = classOf(sc.Prop, first)
				tr.prelude = prelude
				fmt.Printf("run %d violates only after earlier runs in the same process (state kept by the library across calls): prelude minimised from %d to %d runs\n", index, len(full), len(prelude))
			}
		}
	}
	// The simulator's own determinism is established by the self-test on the unchanged tree.  If a
	// run nevertheless does not repeat, the tree under test consults a source of nondeterminism
	// the simulator does not own (the instrumenter already takes over map iteration order, locks,
	// goroutine starts and scheduling).  Such a violation is still a violation of the real code;
	// it is confirmed by repetition and every later step tolerates the flakiness.
	tries := 1
	for got == "" && tries < noReproTries {
		first = execFirst()
		if first.Infra != "" {
			fmt.Fprintln(os.Stderr, "INFRASTRUCTURE ERROR while confirming run", index, ":", first.Infra)
			return "", exitInfra
		}
		got = classOf(sc.Prop, first)
		tries++
	}
	if got == "" {
		fmt.Fprintf(os.Stderr, "note: run %d (class %s) did not reproduce in %d fresh executions; not reported\n", index, class, tries)
		return "", exitNoRepro
	}
	flaky := ""
	if strings.HasSuffix(got, "/data-race") && tries == 1 {
		// whether the Go race detector reports a given race in a given execution is not a pure
		// function of the schedule: its shadow memory keeps a bounded, randomly evicted access
		// history.  The race is in the code either way; candidates and the replay are repeated.
		flaky = fmt.Sprintf("data-race reports depend on the race detector's bounded, randomly evicted shadow memory: an execution with the same schedule may go unreported; replay repeats the execution up to %d times", replayTries)
		tr.tries = 3
	}
	if tries > 1 {
		flaky = fmt.Sprintf("the violation first reproduced at the %d. fresh execution of the same run: the tree under test consults a source of nondeterminism that the simulator does not own; replay repeats the execution up to %d times", tries, replayTries)
		tr.tries = 4
	}
	class = got
	var tape []uint64
	if first.Res != nil {
		tape = first.Res.Tape
	} else {
		// the process died: reconstruct the tape from the run's PRNG (replay reduces modulo the
		// bound exactly as generation does)
		r := newRng(runSeed(seed, sc.Prop, index))
		tape = make([]uint64, 1<<14)
		for i := range tape {
			tape[i] = r.next()
		}
	}
	rf := replayFile{Property: sc.Prop, Tier: tier, Seed: seed, Index: index, Flaky: flaky, Prelude: prelude}
	usable := false
	if len(tape) > 0 {
		chk := tr.runFor(tape, class)
		if chk.Infra == "" && classOf(sc.Prop, chk) == class {
			usable = true
			sh := &shrinker{tr: tr, class: class, best: tape, bestRes: chk, maxExecs: 400, deadline: time.Now().Add(60 * time.Second)}
			if chk.Res != nil && len(chk.Res.Tape) > 0 {
				sh.best = chk.Res.Tape
			}
			before := len(sh.best)
			sh.shrink()
			rf.Tape = sh.best
			rf.Shrink = fmt.Sprintf("tape %d -> %d entries, %d candidate executions, %d accepted", before, len(sh.best), sh.execs, sh.accepted)
			fillReplay(&rf, sc.Prop, sh.bestRes)
		}
	}
	if !usable {
		rf.Note = "tape replay unavailable; replay re-derives the run from seed and run_index"
		fillReplay(&rf, sc.Prop, first)
	}
	name := fmt.Sprintf("%s-%s-seed%d-run%d.json", sc.Prop, tier, seed, index)
	path := filepath.Join(replayDir, name)
	b, _ := json.MarshalIndent(rf, "", " ")
	if err := os.WriteFile(path, append(b, '\n'), 0o644); err != nil {
		infraFatal("replay file: %v", err)
	}
	// the replay file itself must reproduce, in yet another fresh process
	final := replayOnce(exe, path, known)
	for i := 1; flaky != "" && i < replayTries && final.Infra == "" && classOf(sc.Prop, final) != class; i++ {
		final = replayOnce(exe, path, known)
	}
	if fc := classOf(sc.Prop, final); final.Infra == "" && fc != class && fc != "" && (strings.HasSuffix(fc, "/data-race") || strings.HasSuffix(class, "/data-race")) {
		// the same defect seen through the other monitor: whether the race detector speaks first
		// (killing the process) or the oracle does is not decided by the schedule alone
		fmt.Printf("note: the minimised replay shows the violation as %s (first seen as %s)\n", fc, class)
		class = fc
		fillReplay(&rf, sc.Prop, final)
		rf.Flaky = fmt.Sprintf("the violation shows either as a data-race report or as a failed oracle clause, depending on which monitor fires first (the race detector's reports are not a pure function of the schedule); replay repeats the execution up to %d times", replayTries)
		b, _ := json.MarshalIndent(rf, "", " ")
		os.WriteFile(path, append(b, '\n'), 0o644)
	}
	if final.Infra != "" || classOf(sc.Prop, final) != class {
		fmt.Fprintf(os.Stderr, "INFRASTRUCTURE ERROR: minimised replay file %s does not reproduce class %s (got %q %s)\n", path, class, classOf(sc.Prop, final), final.Infra)
		return "", exitInfra
	}
	fmt.Printf("violation class=%s run=%d %s\n", class, index, rf.Shrink)
	if rf.Violation != nil {
		fmt.Printf("  %s\n", head(rf.Violation.Detail, 800))
	}
	return path, exitViolation
}

func fillReplay(rf *replayFile, prop string, cr childResult) {
	if cr.Res != nil && cr.Res.Violation != nil {
		rf.Violation = cr.Res.Violation
		rf.Trace = cr.Res.Trace
		return
	}
	rf.Fatal = cr.Fatal
	rf.Violation = &Violation{Property: prop, Class: prop + "/" + cr.Fatal, Sig: prop + "/" + cr.Fatal,
		Detail: "the process running the library died: " + head(firstFatalLines(cr.Stderr), 1500)}
	rf.Trace = append(append([]string{}, cr.LiveLog...), "--- stderr of the dying process ---", head(cr.Stderr, 6000))
}

func firstFatalLines(s string) string {
	if len(s) > 1500 {
		return s[:1500]
	}
	return s
}

func replayOnce(exe, path, known string) childResult {
	b, err := os.ReadFile(path)
	if err != nil {
		return childResult{Infra: err.Error()}
	}
	var rf replayFile
	if err := json.Unmarshal(b, &rf); err != nil {
		return childResult{Infra: "replay file: " + err.Error()}
	}
	to := 300*time.Second + time.Duration(len(rf.Prelude))*20*time.Millisecond
	if len(rf.Tape) > 0 {
		args := []string{"exec", "-prop", rf.Property, "-tier", rf.Tier, "-tape", path, "-known", known}
		pa, cl := preludeArgs(rf.Seed, rf.Prelude)
		defer cl()
		return execChild(exe, append(args, pa...), to)
	}
	args := []string{"exec", "-prop", rf.Property, "-tier", rf.Tier, "-seed", fmt.Sprint(rf.Seed), "-i", fmt.Sprint(rf.Index), "-known", known}
	if len(rf.Prelude) > 0 {
		v, cl := preludeValue(rf.Prelude)
		defer cl()
		args = append(args, "-prelude", v)
	}
	return execChild(exe, args, to)
}

func cmdReplay(args []string) int {
	fs := flag.NewFlagSet("replay", flag.ExitOnError)
	file := fs.String("file", "", "")
	known := fs.String("known", "", "")
	fs.Parse(args)
	exe, _ := os.Executable()
	b, err := os.ReadFile(*file)
	if err != nil {
		infraFatal("%v", err)
	}
	var rf replayFile
	if err := json.Unmarshal(b, &rf); err != nil {
		infraFatal("replay file: %v", err)
	}
	getScenario(rf.Property)
	cr := replayOnce(exe, *file, *known)
	for i := 1; rf.Flaky != "" && i < replayTries && cr.Infra == "" && classOf(rf.Property, cr) == ""; i++ {
		cr = replayOnce(exe, *file, *known)
	}
	if cr.Infra != "" {
		fmt.Fprintln(os.Stderr, "INFRASTRUCTURE ERROR:", cr.Infra)
		return exitInfra
	}
	got := classOf(rf.Property, cr)
	if got == "" {
		fmt.Printf("replay of %s: no violation on this tree (recorded class %s)\n", *file, rf.Violation.Class)
		return exitOK
	}
	var tmp replayFile
	fillReplay(&tmp, rf.Property, cr)
	for _, l := range tmp.Trace {
		fmt.Println("  | " + head(l, 1200))
	}
	fmt.Printf("replayed class=%s (recorded %s): %s\n", got, rf.Violation.Class, head(tmp.Violation.Detail, 1200))
	fmt.Printf("VIOLATION property=%s replay=%s\n", rf.Property, *file)
	return exitViolation
}

// minimisePrelude shrinks the list of earlier runs that must be executed in the same process
// for the violation to appear: shortest failing suffix first (doubling), then removal of
// chunks of decreasing size (ddmin without the complement step).  At most ~120 executions.
func minimisePrelude(full []uint64, fails func([]uint64) bool) []uint64 {
	best := full
	budget := 120
	// a prelude of several hundred thousand runs takes a minute per execution: minimising is also
	// capped by wall-clock time (whatever has been reached by then is a valid, just longer, prelude)
	deadline := time.Now().Add(5 * time.Minute)
	try := func(p []uint64) bool {
		if budget <= 0 || time.Now().After(deadline) {
			return false
		}
		budget--
		return fails(p)
	}
	for l := 1; l < len(full); l *= 2 {
		if cand := full[len(full)-l:]; try(cand) {
			best = cand
			break
		}
	}
	for chunk := (len(best) + 1) / 2; chunk >= 1 && budget > 0; chunk /= 2 {
		for i := 0; i < len(best) && budget > 0; {
			end := min(i+chunk, len(best))
			cand := append(append([]uint64(nil), best[:i]...), best[end:]...)
			if len(cand) > 0 && try(cand) {
				best = cand
			} else {
				i = end
			}
		}
		if chunk == 1 {
			break
		}
	}
	return best
}
