package main

import (
	"bufio"
	"bytes"
	"flag"
	"fmt"
	"math"
	"os"
	"os/exec"
	"reflect"
	"strings"
	"sync"

	"github.com/xinchentechnote/fin-proto-go/simrt"
)

// selftest determinism: the same (seed, run index) must give the same run fingerprint (hash of
// every tape draw, scheduling decision and oracle observation) in separate processes, at
// GOMAXPROCS 1, 4 and 16.  A mismatch is an infrastructure error (exit 2): without determinism
// neither replay nor minimisation can be trusted.
func cmdSelftest(args []string) int {
	fs := flag.NewFlagSet("selftest", flag.ExitOnError)
	propsF := fs.String("props", "", "comma-separated properties (default: all this binary supports)")
	runs := fs.Uint64("runs", 200, "run indices per property")
	reps := fs.Int("reps", 2, "repetitions per GOMAXPROCS value")
	seed := fs.Uint64("seed", envSeed(), "")
	tier := fs.String("tier", "quick", "")
	fs.Parse(args)
	if err := oracleSelfTest(); err != nil {
		fmt.Fprintln(os.Stderr, "selftest comparer:", err)
		return exitInfra
	}
	var props []string
	if *propsF != "" {
		props = strings.Split(*propsF, ",")
	} else {
		for _, k := range sortedKeys(scenarios) {
			if scenarios[k].Race == simrt.RaceEnabled {
				props = append(props, k)
			}
		}
	}
	exe, _ := os.Executable()
	bad := 0
	for _, p := range props {
		sc := getScenario(p)
		type job struct {
			gm  string
			rep int
		}
		var jobs []job
		for _, gm := range []string{"1", "4", "16"} {
			for r := 0; r < *reps; r++ {
				jobs = append(jobs, job{gm, r})
			}
		}
		results := make([]map[uint64]string, len(jobs))
		errs := make([]string, len(jobs))
		var wg sync.WaitGroup
		for ji, j := range jobs {
			wg.Add(1)
			go func(ji int, j job) {
				defer wg.Done()
				cmd := exec.Command(exe, "worker", "-prop", sc.Prop, "-tier", *tier, "-seed", fmt.Sprint(*seed), "-w", "0", "-n", "1", "-count", fmt.Sprint(*runs), "-rpp", "0")
				env := workerEnv()
				env = append(env, "GOMAXPROCS="+j.gm)
				cmd.Env = env
				var se bytes.Buffer
				cmd.Stderr = &se
				out, err := cmd.Output()
				if err != nil {
					errs[ji] = fmt.Sprintf("%v: %s", err, tail(se.String(), 500))
					return
				}
				m := map[uint64]string{}
				sc := bufio.NewScanner(bytes.NewReader(out))
				sc.Buffer(make([]byte, 1<<20), 1<<26)
				for sc.Scan() {
					f := strings.Fields(sc.Text())
					if len(f) >= 3 && f[0] == "E" {
						var i uint64
						fmt.Sscan(f[1], &i)
						m[i] = f[2] + " " + f[len(f)-1]
					}
				}
				results[ji] = m
			}(ji, j)
		}
		wg.Wait()
		mism := 0
		for ji := range jobs {
			if errs[ji] != "" {
				fmt.Fprintf(os.Stderr, "selftest %s GOMAXPROCS=%s: %s\n", p, jobs[ji].gm, errs[ji])
				mism++
				continue
			}
			if len(results[ji]) != int(*runs) {
				fmt.Fprintf(os.Stderr, "selftest %s GOMAXPROCS=%s: %d of %d runs completed\n", p, jobs[ji].gm, len(results[ji]), *runs)
				mism++
				continue
			}
			for i, fp := range results[0] {
				if results[ji][i] != fp {
					if mism < 5 {
						fmt.Fprintf(os.Stderr, "selftest %s: run %d fingerprint %s (GOMAXPROCS=%s rep %d) != %s (first execution)\n", p, i, results[ji][i], jobs[ji].gm, jobs[ji].rep, fp)
					}
					mism++
				}
			}
		}
		if mism > 0 {
			bad++
			fmt.Printf("selftest determinism %s: FAILED (%d mismatches)\n", p, mism)
		} else {
			fmt.Printf("selftest determinism %s: %d runs x %d executions (GOMAXPROCS 1/4/16, separate processes) identical\n", p, *runs, len(jobs))
		}
	}
	if bad > 0 {
		return exitInfra
	}
	return exitOK
}

// oracleSelfTest checks the shared comparer and cloner on generated values of every type:
// a clone is equal; equality is by bit pattern (NaN payloads, -0), nil list == empty list; a
// change to any single leaf of a clone is detected; cloning copies text bytes and slices.
func oracleSelfTest() error {
	t := NewTape(0x5e1f7e57)
	checked := 0
	for round := 0; round < 3; round++ {
		for _, name := range schema.Names {
			g := &Gen{t: t, cfg: drawCfg(t, false)}
			if g.cfg.ListCap > 17 {
				g.cfg.ListCap = 17
			}
			if g.cfg.StrCap > 40 {
				g.cfg.StrCap = 40
			}
			v := g.Value(name)
			c := Clone(v)
			if ok, d := Equal(v, c); !ok {
				return fmt.Errorf("%s: clone differs from original at %s", name, d)
			}
			if n := mutateInPlace(reflect.ValueOf(c).Elem(), t.Bulk()); n > 0 {
				if ok, _ := Equal(v, c); ok {
					return fmt.Errorf("%s: %d leaves of a clone were changed but Equal still says equal (clone shares memory with the original, or the comparer is blind)", name, n)
				}
			}
			checked++
		}
	}
	type probe struct {
		F []float64
		L []string
	}
	a := &probe{F: []float64{math.Float64frombits(0x7ff8000000000001), math.Copysign(0, -1)}}
	b := &probe{F: []float64{math.Float64frombits(0x7ff8000000000001), math.Copysign(0, -1)}, L: []string{}}
	if ok, d := Equal(a, b); !ok {
		return fmt.Errorf("NaN payload / -0 / nil-vs-empty list must compare equal: %s", d)
	}
	b.F[0] = math.Float64frombits(0x7ff8000000000002)
	if ok, _ := Equal(a, b); ok {
		return fmt.Errorf("different NaN payloads must compare different")
	}
	b.F[0] = a.F[0]
	b.F[1] = 0
	if ok, _ := Equal(a, b); ok {
		return fmt.Errorf("-0 and +0 must compare different")
	}
	fmt.Printf("selftest comparer: clone/equal/mutation-detection on %d generated values of %d types ok\n", checked, len(schema.Names))
	return nil
}
