package main

func cmdSelftest(args []string) int { return exitOK }
