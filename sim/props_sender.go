package main

import (
	"bytes"
	"fmt"
	"reflect"
	"strings"
	"unsafe"

	"github.com/xinchentechnote/fin-proto-go/simrt"
)

// ---------------------------------------------------------------- guarded library calls

type callResult struct {
	Err    error
	Panic  any
	Stack  string
	Budget bool // tick budget exhausted ("does not return in time proportional to the input")
	Ticks  uint64
}

func guarded(budget uint64, f func() error) (r callResult) {
	start := simrt.Now()
	simrt.SetBudget(budget)
	defer func() {
		if p := recover(); p != nil {
			if _, ok := p.(simrt.BudgetExceeded); ok {
				r.Budget = true
			} else {
				r.Panic = p
				r.Stack = debugStack()
			}
		}
		if simrt.BudgetBlown() {
			r.Budget = true
		}
		simrt.SetBudget(0)
		r.Ticks = simrt.Now() - start
	}()
	r.Err = f()
	return
}

func tryEncode(m any, buf *bytes.Buffer) callResult {
	c := asCodec(m)
	return guarded(0, func() error { return c.Encode(buf) })
}

func tryDecodeBudget(m any, buf *bytes.Buffer, budget uint64) callResult {
	c := asCodec(m)
	return guarded(budget, func() error { return c.Decode(buf) })
}

func tryDecode(m any, buf *bytes.Buffer) callResult { return tryDecodeBudget(m, buf, 0) }

func cloneBytes(b []byte) []byte { return append([]byte(nil), b...) }

// ---------------------------------------------------------------- sender-side buffer histories

type bufHist struct {
	prior    []byte
	consumed int
	slack    int
	desc     string
	arr      []byte
}

func (h *bufHist) unread() int { return len(h.prior) - h.consumed }

// build constructs the send buffer over a simulator-owned backing array.
func (h *bufHist) build() *bytes.Buffer {
	h.arr = make([]byte, len(h.prior)+h.slack)
	copy(h.arr, h.prior)
	buf := bytes.NewBuffer(h.arr[:len(h.prior)])
	if h.consumed > 0 {
		buf.Next(h.consumed)
	}
	return buf
}

func (h *bufHist) reallocated(buf *bytes.Buffer) bool {
	b := buf.Bytes()
	if cap(b) == 0 || len(h.arr) == 0 {
		return len(h.arr) == 0 && cap(b) != 0
	}
	p := uintptr(unsafe.Pointer(unsafe.SliceData(b[:1:1])))
	lo := uintptr(unsafe.Pointer(unsafe.SliceData(h.arr)))
	return p < lo || p >= lo+uintptr(len(h.arr))
}

func (h *bufHist) sig() string {
	if h.unread() > 0 {
		return "prior"
	}
	return "noprior"
}

// drawHistory chooses what the send buffer looks like before the encode under test.
func drawHistory(c *RunCtx, g *Gen, refLen int, subject string) *bufHist {
	t := c.T
	h := &bufHist{}
	var parts []string
	if t.Intn(6) == 5 {
		// the process's history: an earlier Encode that FAILED in the library's ordinary way (missing
		// extension with an unregistered discriminator) - of the type under test if it carries a
		// discriminator table, or inside a frame - into a buffer of its own
		dt := discTypes()
		name := dt[t.Intn(len(dt))]
		if ts := schema.Types[subject]; ts != nil && ts.Table != "" && t.Intn(2) == 0 {
			name = subject
		}
		m := g.Value(name)
		if breakForEncode(reflect.ValueOf(m).Elem(), schemaOf(name)) {
			var scratch bytes.Buffer
			if r := tryEncode(m, &scratch); r.Err != nil && r.Panic == nil {
				c.Fire("hist.failed-encode")
				parts = append(parts, "after-a-failed-encode-of:"+name)
			}
		}
	}
	switch t.Intn(6) {
	case 0:
		parts = append(parts, "empty")
	case 1:
		n := 1 + t.Intn(32)
		b := t.Bulk()
		h.prior = make([]byte, n)
		for i := range h.prior {
			h.prior[i] = byte(b.next())
		}
		parts = append(parts, fmt.Sprintf("junk(%d)", n))
	case 2, 3:
		k := 1 + t.Intn(3)
		for i := 0; i < k; i++ {
			name := pickType(t, 6)
			m := g.Value(name)
			var b bytes.Buffer
			if r := tryEncode(m, &b); r.Err != nil || r.Panic != nil {
				continue
			}
			h.prior = append(h.prior, b.Bytes()...)
			parts = append(parts, "frame:"+name)
		}
	case 4:
		n := 1 + t.Intn(300)
		h.prior = bytes.Repeat([]byte{0xFF}, n)
		parts = append(parts, fmt.Sprintf("ff(%d)", n))
	default:
		n := 4096 + t.Intn(4096)
		if t.Chance(1, 12) {
			// a long-lived send buffer: the frame starts beyond what 16 bits can index
			n = 65530 + t.Intn(140000)
		}
		b := t.Bulk()
		h.prior = make([]byte, n)
		for i := range h.prior {
			h.prior[i] = byte(b.next())
		}
		parts = append(parts, fmt.Sprintf("junk(%d)", n))
	}
	if len(h.prior) > 0 {
		switch t.Intn(4) {
		case 0:
		case 1:
			h.consumed = len(h.prior)
			parts = append(parts, "drained-not-reset")
		default:
			h.consumed = t.Intn(len(h.prior) + 1)
			parts = append(parts, fmt.Sprintf("consumed(%d)", h.consumed))
		}
	}
	switch t.Intn(7) {
	case 0:
		h.slack = refLen + 4096
	case 1:
		h.slack = 0
	case 2:
		h.slack = 1
	case 3:
		h.slack = 3
	case 4:
		h.slack = max(refLen-1, 0)
	case 5:
		h.slack = refLen
	default:
		h.slack = 64
	}
	parts = append(parts, fmt.Sprintf("slack(%d)", h.slack))
	h.desc = strings.Join(parts, ",")
	return h
}

func (c *RunCtx) fireHistory(h *bufHist, buf *bytes.Buffer) {
	if h.unread() > 0 {
		c.Fire("hist.prior")
	}
	if h.consumed > 0 {
		c.Fire("hist.consumed")
	}
	if h.reallocated(buf) {
		c.Fire("hist.tightcap")
		c.Probe("reallocated-during-encode")
	}
}

func pickType(t *Tape, frameBias int) string {
	if t.Intn(10) < frameBias {
		return schema.Frames[t.Intn(len(schema.Frames))]
	}
	return schema.Names[t.Intn(len(schema.Names))]
}

// refEncode encodes a clone of m into a fresh empty buffer: the trivial history.
func refEncode(m any) (obj any, out []byte, ok bool) {
	obj = Clone(m)
	var b bytes.Buffer
	r := tryEncode(obj, &b)
	if r.Err != nil || r.Panic != nil {
		return obj, nil, false
	}
	out = cloneBytes(b.Bytes())
	recycleBuf(&b) // scratch buffers of the harness are pooled: what the library kept of this one is junk now
	return obj, out, true
}

// jumboFrame builds an SZSE frame whose body carries one 4-byte-prefixed text of n 0xFF bytes
// (frames of tens of MB are legal on the wire: the prefix is 32 bits).
func jumboFrame(g *Gen, n int) any {
	ts := schemaOf("szse.SzseBinary")
	tb := schema.Tables[ts.Table]
	for ki, k := range tb.Keys {
		if k.Type != "szse.ExecutionConfirm" {
			continue
		}
		saved := g.cfg
		g.cfg.StrCap, g.cfg.ListCap = 4, 1
		fr := g.ValueWithKey("szse.SzseBinary", ki)
		ets := schemaOf("szse.ExecutionConfirm")
		etb := schema.Tables[ets.Table]
		for eki, ek := range etb.Keys {
			if ek.Type == "szse.Extend206302" {
				body := g.ValueWithKey("szse.ExecutionConfirm", eki)
				ext := fieldOf(reflect.ValueOf(body).Elem(), "ApplExtend").Elem()
				fieldOf(ext.Elem(), "ImcrejectText").SetString(string(bytes.Repeat([]byte{0xFF}, n)))
				fieldOf(reflect.ValueOf(fr).Elem(), "Body").Set(reflect.ValueOf(body))
				g.cfg = saved
				return fr
			}
		}
		g.cfg = saved
	}
	infraFatal("jumbo frame route (SzseBinary/ExecutionConfirm/Extend206302) not in pinned schema")
	return nil
}

// ---------------------------------------------------------------- C06

func init() {
	register(&scenario{
		Prop: "C06", Run: runC06, Level: "exploration", Quick: 1000000, Thorough: 15000000,
		Rule:        "one run = one generated canonical message of one of the 170 types (value drawn from the pinned schema) encoded behind a seeded buffer history (prior content: empty/junk/earlier frames; bytes already consumed; capacity slack forcing or avoiding reallocation), then re-encoded 0-2 times, then optionally followed by a second message. Oracles: unread prior bytes unchanged; appended bytes == encoding of a pre-made clone into an empty buffer; re-encode appends the same bytes; whole buffer == concatenation. A run is non-trivial when at least one history fault fired (unread prior bytes, consumed bytes, reallocation, re-encode, batch) and at least one oracle clause was evaluated on library output; distinct = distinct run fingerprints (hash of all tape draws and observed output bytes).",
		Assumptions: []string{"the reference encoding is the library's own output in the trivial history (fresh buffer, clone of the value)", "values are canonical w.r.t. the pinned schema"},
	})
}

func runC06(c *RunCtx) {
	t := c.T
	g := &Gen{t: t, cfg: drawCfg(t, c.Thorough)}
	name := pickType(t, 4)
	if t.Intn(40) == 0 {
		lateRegister(c, g, name)
	}
	var m any
	absent := false
	if c.Thorough && t.Chance(1, 3000) {
		m = jumboFrame(g, 8_500_000+t.Intn(1000))
		name = "szse.SzseBinary"
		c.Probe("jumbo-frame")
	} else {
		if schema.Types[name].Table != "" && t.Intn(8) == 0 {
			// body / extension left out by the caller: the encoder fills it in from the discriminator
			g.cfg.NilBody = true
			absent = true
			c.Probe("absent-body")
		}
		m = g.Value(name)
		g.cfg.NilBody = false
	}
	c.Count("type."+name, 1)
	c.LogValue("MESSAGE "+name, m)
	pre := Clone(m)
	// a second message for later in the run, and its trivial-history encoding, are fixed NOW, before
	// anything else happens in the process - even before the first message is encoded for the
	// first time: a relative of the first (same type and discriminator, texts and lists cut or
	// extended, dictionary words swapped for their partners), a fresh value of the same type, or
	// another type
	var m2 any
	var ref2 []byte
	name2 := ""
	var ref []byte
	ok := false
	if t.Chance(1, 2) {
		switch t.Intn(3) {
		case 0:
			name2 = name
			m2 = variantOf(pre, t.Bulk())
		case 1:
			name2 = name
			if absent {
				g.cfg.NilBody = true
			}
			m2 = g.Value(name2)
			g.cfg.NilBody = false
		default:
			name2 = pickType(t, 5)
			m2 = g.Value(name2)
		}
		var ok2 bool
		if _, ref2, ok2 = refEncode(m2); !ok2 {
			m2 = nil
		}
	}
	if _, ref, ok = refEncode(m); !ok {
		c.Probe("skip.trivial-encode-failed")
		return
	}
	c.Logf("TRIVIAL-HISTORY ENCODING %s", hexClip(ref, 96))
	if cfg, restore := registryConfig(c, t); cfg != "" {
		// a configuration the encoders support: fewer checksum services registered.  The reference
		// encodings are taken again under the same configuration.
		defer restore()
		c.Logf("CONFIGURATION %s", cfg)
		if _, ref, ok = refEncode(pre); !ok {
			return
		}
		if m2 != nil {
			if _, ref2, ok = refEncode(m2); !ok {
				m2 = nil
			}
		}
	}
	h := drawHistory(c, g, len(ref), name)
	buf := h.build()
	c.Logf("HISTORY %s (unread=%d)", h.desc, h.unread())
	expect := cloneBytes(buf.Bytes())
	curName := name
	check := func(step string, obj any, want []byte) {
		before := len(expect)
		r := tryEncode(obj, buf)
		if r.Panic != nil {
			c.Fail("C06/panic-under-history", curName, "%s: Encode panicked under history %s although it succeeds into an empty buffer: %v", step, h.desc, r.Panic)
			return
		}
		if r.Err != nil {
			c.Fail("C06/error-under-history", curName, "%s: Encode returned %v under history %s although it succeeds into an empty buffer", step, r.Err, h.desc)
			return
		}
		after := buf.Bytes()
		c.T.ObserveBytes(after[min(before, len(after)):])
		c.Oracle("prior-bytes-unchanged")
		if len(after) < before || !bytes.Equal(after[:before], expect) {
			c.Fail("C06/prior-bytes-changed", curName+":"+h.sig(), "%s: bytes already in the buffer changed (history %s): had %s, now %s", step, h.desc, hexClip(expect, 64), hexClip(after[:min(before, len(after))], 64))
			return
		}
		c.Oracle("appended-equals-trivial")
		app := after[before:]
		if !bytes.Equal(app, want) {
			c.Fail("C06/appended-differs", curName+":"+h.sig(), "%s of %s under history %s appended %s, but into an empty buffer the same value encodes to %s (first difference at byte %d of %d/%d)", step, curName, h.desc, hexClip(app, 64), hexClip(want, 64), firstDiff(app, want), len(app), len(want))
			return
		}
		expect = append(expect, want...)
	}
	if t.Intn(10) == 0 {
		// a message the encoder refuses (or, for values outside its guarantee, chokes on) is encoded
		// into this very buffer first: whatever it appends, what was queued before must stay
		var bad any
		dt := discTypes()
		bn := dt[t.Intn(len(dt))]
		if t.Intn(3) == 0 {
			bn = name
		}
		bad = g.Value(bn)
		okBad := breakForEncode(reflect.ValueOf(bad).Elem(), schemaOf(bn))
		switch {
		case t.Intn(3) == 0:
			// a value outside the encoder's guarantee: a nested pointer part missing, bare or as
			// the payload of a frame
			for _, bn2 := range []string{"sample.RootPacket", "sample.NestedPacket"} {
				if t.Intn(2) == 0 || bn2 == "sample.NestedPacket" {
					v := g.Value(bn2)
					if nilNested(reflect.ValueOf(v).Elem(), schemaOf(bn2), t.Intn(3)) {
						bad = v
						break
					}
				}
			}
		case !okBad || t.Intn(4) == 0:
			bad = newValue(pickType(t, 2)) // constructor/zero value: nested parts absent
		}
		before := cloneBytes(buf.Bytes())
		rb := tryEncode(bad, buf)
		if rb.Err != nil || rb.Panic != nil {
			c.Fire("hist.failed-encode-into-this-buffer")
			c.Oracle("prior-bytes-survive-a-failed-encode")
			after := buf.Bytes()
			if len(after) < len(before) || !bytes.Equal(after[:len(before)], before) {
				c.Fail("C06/prior-bytes-changed", typeNameOf(bad)+":failed-encode", "an Encode of %s that failed (err=%v panic=%v) altered bytes that were already in the buffer (history %s): %d unread bytes before, %d after", typeNameOf(bad), rb.Err, rb.Panic != nil, h.desc, len(before), len(after))
				return
			}
		}
		expect = cloneBytes(buf.Bytes())
	}
	if t.Intn(8) == 0 && len(ref) > 0 {
		// the message to send was RECEIVED through this very buffer: its wire bytes are written
		// behind what is queued, everything is read back (queued bytes discarded, the message
		// decoded) - and the decoded object is what gets encoded below, into the drained buffer
		buf.Write(ref)
		buf.Next(buf.Len() - len(ref))
		got := newValue(name)
		if rd := tryDecode(got, buf); rd.Err == nil && rd.Panic == nil && buf.Len() == 0 {
			if same, _ := Equal(stripComputed(got, name), stripComputed(pre, name)); same {
				m = got
				expect = nil
				c.Fire("hist.decoded-from-this-buffer")
				if t.Intn(2) == 0 {
					junk := noise(t, 1+t.Intn(40))
					buf.Write(junk)
					expect = cloneBytes(junk)
				}
			} else {
				expect = cloneBytes(buf.Bytes())
			}
		} else {
			expect = cloneBytes(buf.Bytes())
		}
	}
	check("encode", m, ref)
	c.fireHistory(h, buf)
	if t.Intn(8) == 0 {
		// the buffer is recycled (scribbled over, Reset) and the same object sent again
		full := buf.Bytes()
		full = full[:cap(full)]
		for i := range full {
			full[i] ^= 0x3C
		}
		buf.Reset()
		expect = nil
		c.Fire("pool.reuse-after-reset")
		check("encode of the same object after the buffer was recycled", m, ref)
	}
	re := t.Intn(3)
	for i := 0; i < re; i++ {
		c.Fire("hist.reencode")
		check(fmt.Sprintf("re-encode #%d", i+1), m, ref)
	}
	if t.Intn(4) == 0 {
		// the caller goes on working with its message object (everything reachable from it,
		// including parts the encoder filled in) and sends it again
		if n := mutateInPlace(reflect.ValueOf(m).Elem(), t.Bulk()); n > 0 {
			c.Fire("app.mutate")
			if _, refm, okm := refEncode(m); okm {
				check("encode after the caller changed its message", m, refm)
			} else {
				tryEncode(m, &bytes.Buffer{})
			}
		}
	}
	if m2 != nil {
		c.Fire("hist.batch")
		c.LogValue("SECOND MESSAGE "+name2, m2)
		curName = name2
		check("encode of second message", m2, ref2)
	}
	c.Oracle("buffer-is-concatenation")
	if !bytes.Equal(buf.Bytes(), expect) {
		c.Fail("C06/not-concatenation", curName+":"+h.sig(), "final buffer differs from the concatenation of the individual encodings")
	}
}

func firstDiff(a, b []byte) int {
	n := min(len(a), len(b))
	for i := 0; i < n; i++ {
		if a[i] != b[i] {
			return i
		}
	}
	return n
}

// ---------------------------------------------------------------- C04 / C05 (frames with self-computed fields)

func init() {
	register(&scenario{
		Prop: "C04", Run: func(c *RunCtx) { runFrame(c, "C04") }, Level: "exploration", Quick: 800000, Thorough: 15000000,
		Rule:        "one run = one frame of a type with a self-computed length (SSE, SZSE, risk, sample root), body type drawn over every discriminator key pinned for that frame (or absent), stale caller-supplied length drawn from {0,4,random}, encoded behind a seeded buffer history and re-encoded 0-2 times. Oracle (exchange verifier, pinned header geometry): length on the wire == number of body bytes appended; the object reports the same number. Non-trivial = a history/stale fault fired and the oracle ran on library output; distinct = distinct run fingerprints.",
		Assumptions: []string{"pinned header geometry of the four frame types (frames.go) is the exchange's", "body values canonical w.r.t. the pinned schema"},
	})
	register(&scenario{
		Prop: "C05", Run: func(c *RunCtx) { runFrame(c, "C05") }, Level: "exploration", Quick: 800000, Thorough: 15000000,
		Rule:        "one run = one frame of a checksummed type (SSE, SZSE: byte sum mod 256; sample root: CRC-32/IEEE), body drawn over every pinned discriminator key (or absent), stale caller-supplied checksum, encoded behind a seeded buffer history (earlier frames / junk / consumed bytes / tight capacity) and re-encoded 0-2 times; thorough tier adds multi-megabyte frames. Oracle (exchange verifier): trailer == independently implemented algorithm over exactly this frame's bytes up to the trailer; object reports the same value. Non-trivial = a history/stale fault fired and the oracle ran; distinct = distinct run fingerprints.",
		Assumptions: []string{"pinned header geometry and checksum algorithms per frame type (frames.go) are the exchange's", "checksum reference implementations in the harness are independent of codec/checksum.go"},
	})
}

func sumBits(m any, geom *FrameGeom) uint64 {
	if geom.SumField == "" {
		return 0
	}
	return getBits(frameField(m, geom.SumField))
}

func runFrame(c *RunCtx, prop string) {
	t := c.T
	g := &Gen{t: t, cfg: drawCfg(t, c.Thorough)}
	var name string
	if prop == "C04" {
		name = computedFrames[t.Intn(len(computedFrames))]
	} else {
		name = checksummedFrames[t.Intn(len(checksummedFrames))]
	}
	geom := frameGeoms[name]
	var m any
	bodyKind := "body"
	superJumbo := false
	ki := t.Intn(len(schema.Tables[schemaOf(name).Table].Keys))
	switch {
	case c.Thorough && t.Chance(1, 2500):
		n := 8_450_000 + t.Intn(100_000)
		if t.Chance(1, 12) {
			// tens of MB (the text's prefix is 32 bits wide, so this is a legal frame): where sums kept
			// in packed lanes or reduced every so many megabytes run over (seeded change C05-e needs
			// >= 33.7 MB of 0xFF)
			n = []int{16_900_000, 33_700_000, 34_000_000, 50_600_000}[t.Intn(4)] + t.Intn(100_000)
			superJumbo = true
			c.Probe("super-jumbo-frame")
		}
		m = jumboFrame(g, n)
		name = "szse.SzseBinary"
		geom = frameGeoms[name]
		bodyKind = "jumbo"
		c.Probe("jumbo-frame")
	case t.Chance(1, 12):
		g.cfg.NilBody = true
		m = g.ValueWithKey(name, ki)
		g.cfg.NilBody = false
		bodyKind = "absent"
		c.Probe("absent-body")
	default:
		m = g.ValueWithKey(name, ki)
	}
	if bodyKind != "absent" {
		c.Count("body."+typeNameOf(frameField(m, geom.BodyField).Interface()), 1)
	}
	c.Count("frame."+name, 1)
	c.LogValue("FRAME "+name, m)
	if geom.LenField != "" && getBits(frameField(m, geom.LenField)) != 0 {
		c.Fire("hist.stale")
	} else if geom.SumField != "" && getBits(frameField(m, geom.SumField)) != 0 {
		c.Fire("hist.stale")
	}
	if cfg, restore := registryConfigX(c, t, prop == "C04"); cfg != "" {
		defer restore()
		c.Logf("CONFIGURATION %s", cfg)
	}
	// trivial history first
	refObj, ref, ok := refEncode(m)
	if !ok {
		// refused: if the same frame with its self-computed fields zeroed is accepted, the caller's
		// stale value made the difference
		z := Clone(m)
		if geom.LenField != "" {
			setBits(frameField(z, geom.LenField), 0)
		}
		if geom.SumField != "" {
			setBits(frameField(z, geom.SumField), 0)
		}
		var zb bytes.Buffer
		if rz := tryEncode(z, &zb); rz.Err == nil && rz.Panic == nil {
			c.Oracle("stale-computed-field-is-ignored")
			c.Fail(prop+"/refused-because-of-stale-field", name, "Encode of %s refuses the frame (%s=%d, %s=%d left by the caller) but accepts the same frame with those self-computed fields zeroed: what the caller leaves there must not matter", name, geom.LenField, getBits(frameField(m, geom.LenField)), geom.SumField, sumBits(m, geom))
			return
		}
		c.Probe("skip.trivial-encode-failed")
		return
	}
	if bodyKind != "jumbo" && t.Intn(8) == 0 {
		// numeric coincidence: a plain header field that happens to hold the frame's body length or
		// checksum in one of its halves (a sequence number whose upper half equals the length ...)
		v0 := geom.verifyFrame(ref)
		var cands []reflect.Value
		rvm := reflect.ValueOf(m).Elem()
		ts := schemaOf(name)
		for i := range ts.Fields {
			f := &ts.Fields[i]
			if f.Kind == "num" && f.Computed == "" && f.Name != ts.Discriminator {
				cands = append(cands, fieldOf(rvm, f.Name))
			}
		}
		if len(cands) > 0 && !v0.ShortFrame {
			fv := cands[t.Intn(len(cands))]
			L := uint64(v0.WantLen)
			if prop == "C05" && t.Intn(2) == 0 {
				L = uint64(v0.WantSum)
			}
			r := t.Bits()
			var nv uint64
			switch t.Intn(5) {
			case 0:
				nv = L
			case 1:
				nv = L<<32 | r&0xFFFFFFFF
			case 2:
				nv = r<<32 | L
			case 3:
				nv = L << 16
			default:
				nv = L<<32 | L
			}
			setBits(fv, nv)
			c.Probe("numeric-coincidence-with-computed-field")
			if refObj, ref, ok = refEncode(m); !ok {
				return
			}
		}
	}
	verify := func(step, hsig, hdesc string, obj any, a []byte) {
		v := geom.verifyFrame(a)
		c.T.Observe(uint64(v.WireLen)<<32 | uint64(v.WireSum))
		if v.ShortFrame {
			c.Fail(prop+"/short-frame", name, "%s: %s", step, v.Why)
			return
		}
		if prop == "C04" {
			c.Oracle("wire-length")
			if !v.LenOK {
				c.Fail("C04/wire-length", name+":"+hsig, "%s of %s (%s body) under history %s: length field on the wire is %d but %d body bytes follow the %d-byte header (frame %s)", step, name, bodyKind, hdesc, v.WireLen, v.WantLen, geom.HeaderLen, hexClip(a, 48))
				return
			}
			c.Oracle("object-length")
			if got := uint32(getBits(frameField(obj, geom.LenField))); got != v.WantLen {
				c.Fail("C04/object-length", name+":"+hsig, "%s of %s under history %s: object reports %s=%d after Encode but %d body bytes were emitted", step, name, hdesc, geom.LenField, got, v.WantLen)
				return
			}
		} else {
			c.Oracle("wire-checksum")
			if !v.SumOK {
				c.Fail("C05/wire-checksum", name+":"+hsig, "%s of %s (%s body) under history %s: checksum on the wire is %#x but %s over this frame's %d bytes is %#x", step, name, bodyKind, hdesc, v.WireSum, geom.Algo, len(a)-4, v.WantSum)
				return
			}
			c.Oracle("object-checksum")
			if got := uint32(getBits(frameField(obj, geom.SumField))); got != v.WantSum {
				c.Fail("C05/object-checksum", name+":"+hsig, "%s of %s under history %s: object reports Checksum=%#x after Encode but the frame's checksum is %#x", step, name, hdesc, got, v.WantSum)
				return
			}
		}
	}
	verify("encode into an empty buffer", "noprior", "fresh", refObj, ref)
	h := drawHistory(c, g, len(ref), name)
	buf := h.build()
	c.Logf("HISTORY %s (unread=%d)", h.desc, h.unread())
	re := t.Intn(3)
	if superJumbo && re > 1 {
		re = 1 // memory: every further copy of a 50 MB frame doubles the send buffer
	}
	for i := 0; i <= re; i++ {
		if i > 0 && bodyKind != "jumbo" && t.Intn(4) == 0 {
			// the caller changed its message (texts grow, numbers flip) before sending it again
			if n := mutateInPlace(reflect.ValueOf(m).Elem(), t.Bulk()); n > 0 {
				c.Fire("app.mutate")
			}
		}
		before := buf.Len()
		r := tryEncode(m, buf)
		if r.Panic != nil || r.Err != nil {
			// not this property's subject (C06 reports dependence on history); count it
			c.Probe("skip.encode-failed-under-history")
			return
		}
		if i == 0 {
			c.fireHistory(h, buf)
		} else {
			c.Fire("hist.reencode")
		}
		if buf.Len() < before {
			c.Probe("skip.buffer-shrank")
			return
		}
		a := buf.Bytes()[before:]
		step := "encode"
		if i > 0 {
			step = fmt.Sprintf("re-encode #%d", i)
		}
		hsig := "noprior"
		if before > 0 {
			hsig = "prior"
		}
		verify(step, hsig, h.desc, m, a)
	}
	// another frame of the same type behind it - usually carrying the same message type with a
	// differently sized body (what a per-type cache of lengths or offsets would get wrong)
	if bodyKind != "jumbo" && t.Intn(3) == 0 {
		k2 := ki
		if t.Intn(3) == 0 {
			k2 = t.Intn(len(schema.Tables[schemaOf(name).Table].Keys))
		}
		m2 := g.ValueWithKey(name, k2)
		before := buf.Len()
		if r := tryEncode(m2, buf); r.Panic == nil && r.Err == nil && buf.Len() >= before {
			c.Fire("hist.batch")
			hs := "noprior"
			if before > 0 {
				hs = "prior"
			}
			verify("encode of another frame of the same type behind it", hs, h.desc+",second-frame", m2, buf.Bytes()[before:])
		}
	}
	// the send buffer is recycled for the next frame: Reset, same object with other field values
	// of the same size (sequence numbers move on), encoded at the same place in the same array
	if t.Intn(3) == 0 {
		if n := tweakNumbers(reflect.ValueOf(m).Elem(), schemaOf(name)); n >= 0 {
			buf.Reset()
			r := tryEncode(m, buf)
			if r.Panic != nil || r.Err != nil {
				c.Probe("skip.encode-failed-under-history")
				return
			}
			c.Fire("pool.reuse-after-reset")
			verify("encode of the next frame (same size, other field values) after Reset of the same buffer", "reset", h.desc+",reset", m, buf.Bytes())
		}
	}
}

// tweakNumbers inverts every plain numeric field (not computed, not a discriminator) and every
// numeric list element reachable from a value, leaving its encoded size unchanged.
func tweakNumbers(rv reflect.Value, ts *TypeSchema) int {
	n := 0
	for i := range ts.Fields {
		f := &ts.Fields[i]
		fv := fieldOf(rv, f.Name)
		switch f.Kind {
		case "num":
			if f.Computed == "" && f.Name != ts.Discriminator {
				setBits(fv, ^getBits(fv))
				n++
			}
		case "numlist":
			for j := 0; j < fv.Len(); j++ {
				setBits(fv.Index(j), ^getBits(fv.Index(j)))
				n++
			}
		case "obj":
			if fv.Kind() == reflect.Ptr {
				if !fv.IsNil() {
					n += tweakNumbers(fv.Elem(), schemaOf(typeNameOfType(fv.Type())))
				}
			} else {
				n += tweakNumbers(fv, schemaOf(typeNameOfType(fv.Type())))
			}
		case "objlist":
			for j := 0; j < fv.Len(); j++ {
				if e := fv.Index(j); !e.IsNil() {
					n += tweakNumbers(e.Elem(), schemaOf(typeNameOfType(e.Type())))
				}
			}
		case "body":
			if !fv.IsNil() {
				if dn := typeNameOfType(fv.Elem().Type()); schema.Types[dn] != nil {
					n += tweakNumbers(fv.Elem().Elem(), schemaOf(dn))
				}
			}
		}
	}
	return n
}

// stripComputed returns a clone of a frame with its self-computed fields zeroed (for comparing a
// decoded frame with the value that was sent irrespective of what the encoder filled in).
func stripComputed(v any, name string) any {
	z := Clone(v)
	if g := frameGeoms[name]; g != nil && g.Computed {
		setBits(frameField(z, g.LenField), 0)
		if g.SumField != "" {
			setBits(frameField(z, g.SumField), 0)
		}
	}
	return z
}
