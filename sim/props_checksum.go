package main

import (
	"bytes"
	"fmt"
	"reflect"

	"github.com/xinchentechnote/fin-proto-go/codec"
	"github.com/xinchentechnote/fin-proto-go/simrt"
)

// ---------------------------------------------------------------- C14: the checksum services as shared objects
//
// The four checksum services are singletons handed out by the registry: every frame encoder
// of every goroutine calls Calc on the same object, each with its own buffer.  What a simulator
// can own here is (a) the history of the buffer given to Calc (bytes already consumed, spare
// capacity, what the backing array holds outside the unread region), (b) the history of the
// service object (which calls it served before, with which data), (c) the interleaving of
// concurrent Calc calls on the same object.  The oracle is an independent implementation of the
// published definitions (refSum8, refCRC32 in frames.go; refCRC16 below).

// refCRC16 is CRC-16/MODBUS from its catalogue parameters (width 16, poly 0x8005, init 0xFFFF,
// refin, refout, xorout 0), computed MSB-first over bit-reversed input bytes and reversed at
// the end - deliberately not the reflected 0xA001 shift loop of codec/checksum.go.
func refCRC16(b []byte) uint16 {
	rev8 := func(x byte) byte {
		var r byte
		for i := 0; i < 8; i++ {
			r = r<<1 | x&1
			x >>= 1
		}
		return r
	}
	crc := uint16(0xFFFF)
	for _, c := range b {
		crc ^= uint16(rev8(c)) << 8
		for i := 0; i < 8; i++ {
			if crc&0x8000 != 0 {
				crc = crc<<1 ^ 0x8005
			} else {
				crc <<= 1
			}
		}
	}
	var out uint16
	for i := 0; i < 16; i++ {
		out = out<<1 | crc&1
		crc >>= 1
	}
	return out
}

func init() {
	// catalogue check values ("123456789"): a wrong reference is a harness bug, never a VIOLATION
	cv := []byte("123456789")
	if refCRC16(cv) != 0x4B37 || refCRC32(cv) != 0xCBF43926 || refSum8(cv) != 0xDD {
		panic(infraError{"reference checksum implementations fail their catalogue check values"})
	}
}

type sumAlgo struct {
	Name string
	Ref  func([]byte) int64
	Sum8 bool
}

var sumAlgos = []sumAlgo{
	{"CRC16", func(b []byte) int64 { return int64(refCRC16(b)) }, false},
	{"CRC32", func(b []byte) int64 { return int64(refCRC32(b)) }, false},
	{"SSE_BIN", func(b []byte) int64 { return int64(refSum8(b)) }, true},
	{"SZSE_BIN", func(b []byte) int64 { return int64(refSum8(b)) }, true},
}

type calcOp struct {
	algo  int
	data  []byte // the unread bytes Calc must cover
	lead  int    // bytes of the buffer already consumed before the call
	slack int
	desc  string
	// filled by the task
	arr    []byte
	snap   []byte
	got    int64
	kindOK bool
	panicv any
	lenOK  bool
	same   bool
	arrOK  bool
	again  int64 // result of an immediate second call on the same buffer (-1<<62 when not made)
	twice  bool
	found  bool
	reuse  bool // pooled buffer: this call reuses the previous call's backing array (same offsets, same length, other bytes)
	shared bool // the buffer object is shared with another task's concurrent Calc (read-only by contract)
	direct bool // Calc on a service instance constructed by the caller (zero value, as package init builds them) instead of the registered one
}

// callCalc invokes svc.Calc(buf) by reflection, so that the harness does not pin the services'
// (generic) result types: any integer kind is accepted and widened.
func callCalc(svc any, buf *bytes.Buffer) (v int64, ok bool) {
	m := reflect.ValueOf(svc).MethodByName("Calc")
	if !m.IsValid() || m.Type().NumIn() != 1 || m.Type().NumOut() != 1 {
		return 0, false
	}
	out := m.Call([]reflect.Value{reflect.ValueOf(buf)})[0]
	switch out.Kind() {
	case reflect.Int8, reflect.Int16, reflect.Int32, reflect.Int64, reflect.Int:
		return out.Int(), true
	case reflect.Uint8, reflect.Uint16, reflect.Uint32, reflect.Uint64, reflect.Uint:
		return int64(out.Uint()), true
	}
	return 0, false
}

func init() {
	register(&scenario{
		Prop: "C14", Run: runC14, Race: true, RunsPerProcess: 100, Level: "exploration", Quick: 60000, Thorough: 2000000, AbortIsViolation: true,
		Rule:        "one run = 1-4 tasks x 1-5 Calc calls on the four built-in checksum services obtained from the registry (shared singleton objects, as every frame encoder uses them); each call gets its own buffer built over a simulator-owned array with a seeded history (0-300 bytes already consumed, capacity slack 0/1/64/4096, the array outside the unread region filled with a marker); data is seeded: empty, 1-3 bytes, runs of 0xFF / 0x80 / 0x00, random bytes up to 4096 (thorough: rarely 8.5 MB of 0xFF), or the same bytes another task uses, rarely 70 KB - 1 MiB; a call is optionally repeated on the same buffer; a third of the follow-up calls reuse the caller's previous backing array rewritten in place with other bytes of the same length (pooled buffer); a seeded scheduler interleaves the tasks at instrumented statements of codec/checksum.go. Oracles per call: result == independent implementation of the published definition (CRC-16/MODBUS, CRC-32/IEEE, byte sum mod 256) over exactly the unread bytes; byte-sum results in 0..255; buffer Len and unread bytes unchanged, whole backing array unchanged (nothing consumed, nothing modified); repeated call and calls on equal bytes from other tasks/with other histories give the same value; Go race detector with scheduler hand-offs hidden (state kept in a shared service object is reported). Non-trivial = a buffer history, a repeat or a context switch inside Calc actually occurred and the oracle ran; distinct = distinct run fingerprints.",
		Assumptions: []string{"reference implementations in the harness (frames.go, props_checksum.go) are validated against the catalogue check values of CRC-16/MODBUS and CRC-32/IEEE at start-up", "the part of the statement that ranges over every byte string is sampled, not enumerated; what the simulation adds is the buffer history, the service-object history and the interleaving of calls on the shared objects"},
	})
}

func runC14(c *RunCtx) {
	t := c.T
	ntasks := 1 + t.Intn(4)
	var shared [][]byte // data other tasks may reuse
	jumbo := false
	genData := func() ([]byte, string) {
		if len(shared) > 0 && t.Intn(4) == 0 {
			d := shared[t.Intn(len(shared))]
			return d, fmt.Sprintf("same-as-earlier(%d)", len(d))
		}
		var d []byte
		var desc string
		switch k := t.Intn(9); {
		case k == 0:
			d, desc = nil, "empty"
		case k == 1:
			d = noise(t, 1+t.Intn(3))
			desc = fmt.Sprintf("short(%x)", d)
		case k == 2:
			n := 1 + t.Intn(600)
			d = bytes.Repeat([]byte{0xFF}, n)
			desc = fmt.Sprintf("ff(%d)", n)
		case k == 3:
			n := 1 + t.Intn(600)
			d = bytes.Repeat([]byte{0x80}, n)
			desc = fmt.Sprintf("80(%d)", n)
		case k == 4:
			n := 1 + t.Intn(600)
			d = make([]byte, n)
			desc = fmt.Sprintf("zeros(%d)", n)
		case k == 5 && c.Thorough && t.Chance(1, 60):
			n := 8_450_000 + t.Intn(100_000)
			switch t.Intn(4) {
			case 3:
				// beyond 2^32/127 and 2^33/255 bytes: sums kept in packed 32-bit lanes
				n = []int{33_700_000, 34_000_000, 50_600_000, 67_400_000}[t.Intn(4)] + t.Intn(100_000)
			case 0:
				n = 16_900_000 + t.Intn(9_000_000) // several accumulator ranges long
			case 1:
				// exact multiples of the longest run of 0xFF a signed 32-bit sum can take
				// (MaxInt32/255 = 8421504), give or take a byte: where a run-wise reduction ends
				n = (1+t.Intn(3))*8421504 - 1 + t.Intn(4)
			}
			d = bytes.Repeat([]byte{0xFF}, n)
			// a few arbitrary bytes in front: the running sum enters the long 0xFF stretch with
			// an arbitrary residue
			for i, x := range noise(t, t.Intn(9)) {
				d[i] = x
			}
			desc = fmt.Sprintf("ff(%d) behind %x", n, d[:8])
			jumbo = true
			c.Probe("jumbo-input")
		case k == 5 && t.Chance(1, 30):
			// large inputs: services that treat big buffers differently (block-wise paths)
			sizes := []int{70_000, 262_144, 262_145, 300_000}
			if t.Intn(5) == 0 {
				// around and above 1 MiB (seeded change C14-x: inputs over 1 MiB fed block-wise)
				sizes = []int{1 << 20, 1<<20 + 1, 1_500_000}
				if c.Thorough {
					sizes = append(sizes, 2<<20+5, 4<<20+1)
				}
			}
			n := sizes[t.Intn(len(sizes))]
			d = noise(t, n)
			desc = fmt.Sprintf("random(%d)", n)
			c.Probe("large-input")
		case k <= 6:
			n := 1 + t.Intn(64)
			d = noise(t, n)
			desc = fmt.Sprintf("random(%d)", n)
		default:
			n := 1 + t.Intn(4096)
			d = noise(t, n)
			desc = fmt.Sprintf("random(%d)", n)
		}
		shared = append(shared, d)
		return d, desc
	}
	plans := make([][]*calcOp, ntasks)
	for ti := range plans {
		nops := 1 + t.Intn(5)
		for j := 0; j < nops; j++ {
			op := &calcOp{algo: t.Intn(len(sumAlgos))}
			jumbo = false
			op.data, op.desc = genData()
			if jumbo || len(op.data) > 4<<20 {
				op.algo = 2 + t.Intn(2) // byte-sum services only: the bitwise CRC-16 over tens of MB is minutes under the race detector
			} else if len(op.data) > 1<<19 && op.algo == 0 && t.Intn(4) != 0 {
				op.algo = 1 // megabyte inputs: mostly CRC32 instead of the (slow, bit-by-bit) CRC16
			}
			op.lead = []int{0, 0, 1, 5, 64, 300}[t.Intn(6)]
			op.slack = []int{0, 1, 64, 4096}[t.Intn(4)]
			op.twice = t.Intn(3) == 0
			op.direct = t.Intn(5) == 0
			if j > 0 && t.Intn(3) == 0 {
				// the caller's pooled buffer: same array, same offsets and length as its previous call,
				// rewritten in place with other bytes, given to the same service again
				prev := plans[ti][j-1]
				op.reuse = true
				op.algo, op.lead, op.slack = prev.algo, prev.lead, prev.slack
				op.data = make([]byte, len(prev.data))
				delta := byte(1 + t.Intn(255))
				for i := range op.data {
					op.data[i] = prev.data[i] + delta
				}
				op.desc = fmt.Sprintf("previous buffer rewritten in place (+%d on each of %d bytes)", delta, len(op.data))
			}
			plans[ti] = append(plans[ti], op)
		}
	}
	// two callers may hand the SAME buffer object to Calc at the same time: Calc is documented
	// not to touch it, so sharing it read-only is legitimate
	var sharedBuf *bytes.Buffer
	var sharedData []byte
	if ntasks >= 2 && t.Intn(6) == 0 {
		sharedData, _ = genData()
		if len(sharedData) > 1<<16 {
			sharedData = sharedData[:1<<16]
		}
		sharedBuf = bytes.NewBuffer(append([]byte(nil), sharedData...))
		for ti := 0; ti < 2; ti++ {
			op := &calcOp{algo: t.Intn(len(sumAlgos)), data: sharedData, desc: fmt.Sprintf("one buffer object shared read-only by two callers (%d bytes)", len(sharedData)), shared: true}
			plans[ti] = append(plans[ti], op)
		}
		c.Probe("buffer-shared-by-two-callers")
	}
	sp, sdesc := drawSchedPlan(t)
	c.Logf("%d tasks; scheduler: %s", ntasks, sdesc)
	const marker = 0x5A
	sched := simrt.NewSched(sp.NextGap, sp.Pick)
	for ti := range plans {
		ops := plans[ti]
		sched.Spawn(fmt.Sprintf("caller%d", ti), func() {
			var prevArr []byte
			for _, op := range ops {
				svc, found := codec.Get(sumAlgos[op.algo].Name)
				op.found = found
				if !found {
					continue
				}
				if op.direct {
					// an instance the application constructs itself, the way package init does
					svc = []any{&codec.Crc16ChecksumService{}, &codec.Crc32ChecksumService{}, &codec.SseBinChecksumService{}, &codec.SzseBinChecksumService{}}[op.algo]
				}
				if op.shared {
					func() {
						defer func() { op.panicv = recover() }()
						op.got, op.kindOK = callCalc(svc, sharedBuf)
						op.again = -1 << 62
					}()
					op.lenOK, op.same, op.arrOK = true, true, true // judged after both callers are done
					continue
				}
				n := op.lead + len(op.data)
				if op.reuse && len(prevArr) == n+op.slack {
					op.arr = prevArr
				} else {
					op.arr = make([]byte, n+op.slack)
					for i := range op.arr {
						op.arr[i] = marker
					}
				}
				prevArr = op.arr
				copy(op.arr[op.lead:], op.data)
				op.snap = append([]byte(nil), op.arr...)
				buf := bytes.NewBuffer(op.arr[:n])
				buf.Next(op.lead)
				func() {
					defer func() { op.panicv = recover() }()
					op.got, op.kindOK = callCalc(svc, buf)
					op.again = -1 << 62
					if op.twice && op.kindOK {
						op.again, _ = callCalc(svc, buf)
					}
				}()
				op.lenOK = buf.Len() == len(op.data)
				op.same = bytes.Equal(buf.Bytes(), op.data)
				op.arrOK = bytes.Equal(op.arr, op.snap)
			}
		})
	}
	simrt.SetBudget(8_000_000_000)
	deadlock := sched.Run()
	blown := simrt.BudgetBlown()
	simrt.SetBudget(0)
	c.Count("switches", sched.NSwitches)
	c.Count("switches_inside_operations", sched.NPreempt)
	if sched.NPreempt > 0 {
		c.Fire("sched.switch")
	}
	c.Aux = interleavingHash(sched.Switches)
	c.T.Observe(c.Aux)
	if c.Tracing {
		for ti, ops := range plans {
			for _, op := range ops {
				c.Logf("caller%d %s.Calc(%s; %d bytes consumed before, slack %d) -> %d", ti, sumAlgos[op.algo].Name, op.desc, op.lead, op.slack, op.got)
			}
		}
		for _, l := range renderSwitches(sched.Switches) {
			c.Logf("SCHED %s", l)
		}
	}
	for _, tk := range sched.Tasks() {
		if tk.Panic != nil {
			if _, ok := tk.Panic.(simrt.BudgetExceeded); ok {
				c.Fail("C14/no-progress", "", "Calc calls did not finish within the step budget")
				return
			}
			if lf, ok := tk.Panic.(simrt.LibraryFatal); ok {
				c.Fail("C14/fatal", "", "%s", lf.Msg)
				return
			}
			infraFatal("task panicked outside a guarded library call: %v\n%s", tk.Panic, tk.Stack)
		}
	}
	if deadlock != "" {
		c.Fail("C14/deadlock", "", "%s", deadlock)
		return
	}
	if blown {
		c.Fail("C14/no-progress", "", "Calc calls did not finish within the step budget")
		return
	}
	if sharedBuf != nil {
		c.Oracle("shared-buffer-untouched")
		if sharedBuf.Len() != len(sharedData) || !bytes.Equal(sharedBuf.Bytes(), sharedData) {
			c.Fail("C14/modified", "shared", "a buffer handed to two concurrent Calc calls was changed by them (unread: %d bytes, was %d)", sharedBuf.Len(), len(sharedData))
			return
		}
	}
	for ti, ops := range plans {
		for j, op := range ops {
			a := sumAlgos[op.algo]
			if !op.found {
				infraFatal("built-in checksum service %s is not registered in this process", a.Name)
			}
			where := fmt.Sprintf("caller%d call #%d: %s.Calc over %s (%d bytes consumed before, slack %d)", ti, j, a.Name, op.desc, op.lead, op.slack)
			if op.direct {
				where += " on a service instance constructed by the caller"
			}
			if op.lead > 0 || op.slack == 0 {
				c.Fire("hist.consumed")
			}
			if op.reuse {
				c.Fire("pool.reuse-in-place")
			}
			if op.panicv != nil {
				c.Oracle("returns")
				c.Fail("C14/panic", a.Name, "%s panicked: %v", where, op.panicv)
				return
			}
			if !op.kindOK {
				infraFatal("%s.Calc does not have the shape Calc(*bytes.Buffer) <integer>", a.Name)
			}
			c.T.Observe(uint64(op.got))
			c.Oracle("buffer-not-consumed")
			if !op.lenOK {
				c.Fail("C14/consumed", a.Name, "%s changed the number of unread bytes in the buffer it was given", where)
				return
			}
			c.Oracle("buffer-not-modified")
			if !op.same || !op.arrOK {
				c.Fail("C14/modified", a.Name, "%s modified the buffer it was given (unread bytes equal: %v, backing array equal: %v)", where, op.same, op.arrOK)
				return
			}
			want := a.Ref(op.data)
			c.Oracle("equals-published-definition")
			if a.Sum8 && (op.got < 0 || op.got > 255) {
				c.Fail("C14/range", a.Name, "%s returned %d, outside 0..255", where, op.got)
				return
			}
			if op.got != want {
				c.Fail("C14/value", a.Name, "%s returned %#x but the published definition gives %#x", where, op.got, want)
				return
			}
			if op.twice {
				c.Fire("hist.repeat")
				c.Oracle("same-bytes-same-result")
				if op.again != op.got {
					c.Fail("C14/unstable", a.Name, "%s returned %#x, and %#x when called again on the same buffer", where, op.got, op.again)
					return
				}
			}
		}
	}
}
