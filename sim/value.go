package main

import (
	"bytes"
	"fmt"
	"math"
	"reflect"
	"strings"
	"unsafe"

	"github.com/xinchentechnote/fin-proto-go/codec"
)

// Codec is what every generated message type implements.
type Codec interface {
	Encode(buf *bytes.Buffer) error
	Decode(buf *bytes.Buffer) error
}

// subOrderLike adapts the hand-written sample.SubOrder (Encode returns nothing).
type noErrEncoder interface {
	Encode(buf *bytes.Buffer)
	Decode(buf *bytes.Buffer) error
}

type noErrAdapter struct{ x noErrEncoder }

func (a noErrAdapter) Encode(buf *bytes.Buffer) error { a.x.Encode(buf); return nil }
func (a noErrAdapter) Decode(buf *bytes.Buffer) error { return a.x.Decode(buf) }

func asCodec(v any) Codec {
	switch x := v.(type) {
	case Codec:
		return x
	case noErrEncoder:
		return noErrAdapter{x}
	}
	infraFatal("type %T is not a codec", v)
	return nil
}

// ctorMode: build messages and receivers with the library's own constructors (NewT) instead
// of composite literals, where the pinned tree has one.  Set per run from the tape.
var ctorMode bool

func newValue(name string) any {
	if ctorMode {
		if f, ok := typeNewFuncs[name]; ok {
			return f()
		}
	}
	c, ok := typeCtors[name]
	if !ok {
		infraFatal("unknown type %s", name)
	}
	return c()
}

var pkgAlias = map[string]string{
	"github.com/xinchentechnote/fin-proto-go/sse-bin/messages":        "sse",
	"github.com/xinchentechnote/fin-proto-go/szse-bin/messages":       "szse",
	"github.com/xinchentechnote/fin-proto-go/bjse-trade-bin/messages": "bjse",
	"github.com/xinchentechnote/fin-proto-go/risk-bin/messages":       "risk",
	"github.com/xinchentechnote/fin-proto-go/sample-bin/messages":     "sample",
}

func typeNameOfType(rt reflect.Type) string {
	for rt.Kind() == reflect.Ptr {
		rt = rt.Elem()
	}
	a, ok := pkgAlias[rt.PkgPath()]
	if !ok {
		return rt.PkgPath() + "." + rt.Name()
	}
	return a + "." + rt.Name()
}

func typeNameOf(v any) string {
	if v == nil {
		return "<nil>"
	}
	return typeNameOfType(reflect.TypeOf(v))
}

// ---------------------------------------------------------------- raw bit access (never through float conversion)

func numSize(k reflect.Kind) int {
	switch k {
	case reflect.Int8, reflect.Uint8:
		return 1
	case reflect.Int16, reflect.Uint16:
		return 2
	case reflect.Int32, reflect.Uint32, reflect.Float32:
		return 4
	case reflect.Int64, reflect.Uint64, reflect.Float64:
		return 8
	}
	return 0
}

func isNumKind(k reflect.Kind) bool { return numSize(k) != 0 }

func getBits(rv reflect.Value) uint64 {
	if !rv.CanAddr() {
		c := reflect.New(rv.Type()).Elem()
		c.Set(rv)
		rv = c
	}
	p := unsafe.Pointer(rv.UnsafeAddr())
	switch numSize(rv.Kind()) {
	case 1:
		return uint64(*(*uint8)(p))
	case 2:
		return uint64(*(*uint16)(p))
	case 4:
		return uint64(*(*uint32)(p))
	case 8:
		return *(*uint64)(p)
	}
	infraFatal("getBits on %s", rv.Kind())
	return 0
}

func setBits(rv reflect.Value, b uint64) {
	p := unsafe.Pointer(rv.UnsafeAddr())
	switch numSize(rv.Kind()) {
	case 1:
		*(*uint8)(p) = uint8(b)
	case 2:
		*(*uint16)(p) = uint16(b)
	case 4:
		*(*uint32)(p) = uint32(b)
	case 8:
		*(*uint64)(p) = b
	default:
		infraFatal("setBits on %s", rv.Kind())
	}
}

// ---------------------------------------------------------------- deep clone / equal

func Clone(v any) any {
	if v == nil {
		return nil
	}
	return cloneValue(reflect.ValueOf(v)).Interface()
}

func cloneValue(rv reflect.Value) reflect.Value {
	switch rv.Kind() {
	case reflect.Ptr:
		if rv.IsNil() {
			return reflect.Zero(rv.Type())
		}
		n := reflect.New(rv.Type().Elem())
		n.Elem().Set(cloneValue(rv.Elem()))
		return n
	case reflect.Interface:
		if rv.IsNil() {
			return reflect.Zero(rv.Type())
		}
		c := cloneValue(rv.Elem())
		n := reflect.New(rv.Type()).Elem()
		n.Set(c)
		return n
	case reflect.Struct:
		// a clone carries the message - its exported fields - and nothing else: state a tree keeps
		// in unexported fields (caches, markers) is deliberately NOT copied, so that an encoding of a
		// clone is a reference that depends on the message only
		n := reflect.New(rv.Type()).Elem()
		for i := 0; i < rv.NumField(); i++ {
			if !rv.Type().Field(i).IsExported() {
				continue
			}
			n.Field(i).Set(cloneValue(rv.Field(i)))
		}
		return n
	case reflect.Slice:
		if rv.IsNil() {
			return reflect.Zero(rv.Type())
		}
		n := reflect.MakeSlice(rv.Type(), rv.Len(), rv.Len())
		ek := rv.Type().Elem().Kind()
		if isNumKind(ek) {
			reflect.Copy(n, rv)
			return n
		}
		for i := 0; i < rv.Len(); i++ {
			n.Index(i).Set(cloneValue(rv.Index(i)))
		}
		return n
	case reflect.String:
		// a real copy of the bytes: a snapshot must not share memory with a string that (in a
		// broken tree) points into a buffer's backing array
		n := reflect.New(rv.Type()).Elem()
		n.SetString(strings.Clone(rv.String()))
		return n
	default:
		return rv
	}
}

// Equal compares two messages: numbers by bit pattern, text byte for byte, nil list == empty
// list, interface fields by dynamic type then value, pointers by pointee.  It returns the
// path of the first difference.
func Equal(a, b any) (bool, string) {
	if a == nil || b == nil {
		if a == nil && b == nil {
			return true, ""
		}
		return false, fmt.Sprintf("$: %s vs %s", typeNameOf(a), typeNameOf(b))
	}
	return equalValue(reflect.ValueOf(a), reflect.ValueOf(b), "$")
}

func equalValue(a, b reflect.Value, path string) (bool, string) {
	if a.Type() != b.Type() {
		return false, fmt.Sprintf("%s: type %s vs %s", path, a.Type(), b.Type())
	}
	switch a.Kind() {
	case reflect.Ptr:
		if a.IsNil() || b.IsNil() {
			if a.IsNil() && b.IsNil() {
				return true, ""
			}
			return false, fmt.Sprintf("%s: nil vs non-nil pointer", path)
		}
		return equalValue(a.Elem(), b.Elem(), path)
	case reflect.Interface:
		if a.IsNil() || b.IsNil() {
			if a.IsNil() && b.IsNil() {
				return true, ""
			}
			return false, fmt.Sprintf("%s: nil vs non-nil (%s vs %s)", path, dynName(a), dynName(b))
		}
		if a.Elem().Type() != b.Elem().Type() {
			return false, fmt.Sprintf("%s: dynamic type %s vs %s", path, a.Elem().Type(), b.Elem().Type())
		}
		return equalValue(a.Elem(), b.Elem(), path)
	case reflect.Struct:
		for i := 0; i < a.NumField(); i++ {
			f := a.Type().Field(i)
			if !f.IsExported() {
				continue
			}
			if ok, d := equalValue(a.Field(i), b.Field(i), path+"."+f.Name); !ok {
				return false, d
			}
		}
		return true, ""
	case reflect.Slice:
		if a.Len() != b.Len() {
			return false, fmt.Sprintf("%s: len %d vs %d", path, a.Len(), b.Len())
		}
		for i := 0; i < a.Len(); i++ {
			if ok, d := equalValue(a.Index(i), b.Index(i), fmt.Sprintf("%s[%d]", path, i)); !ok {
				return false, d
			}
		}
		return true, ""
	case reflect.String:
		if a.String() != b.String() {
			return false, fmt.Sprintf("%s: %q vs %q", path, clip(a.String()), clip(b.String()))
		}
		return true, ""
	default:
		if isNumKind(a.Kind()) {
			x, y := getBits(a), getBits(b)
			if x != y {
				return false, fmt.Sprintf("%s: bits %#x vs %#x", path, x, y)
			}
			return true, ""
		}
		if a.Kind() == reflect.Bool {
			if a.Bool() != b.Bool() {
				return false, path + ": bool differs"
			}
			return true, ""
		}
		// a kind no message has today: fall back to DeepEqual
		if !reflect.DeepEqual(a.Interface(), b.Interface()) {
			return false, path + ": differs"
		}
		return true, ""
	}
}

func dynName(v reflect.Value) string {
	if v.IsNil() {
		return "<nil>"
	}
	return v.Elem().Type().String()
}

func clip(s string) string {
	if len(s) > 40 {
		return s[:40] + "…"
	}
	return s
}

// ---------------------------------------------------------------- rendering (for traces and samples)

func Render(v any) any {
	if v == nil {
		return nil
	}
	return renderValue(reflect.ValueOf(v))
}

func renderText(s string) any {
	for i := 0; i < len(s); i++ {
		if s[i] < 0x20 || s[i] > 0x7e {
			if len(s) > 48 {
				return fmt.Sprintf("hex:%x…(%d bytes)", s[:48], len(s))
			}
			return fmt.Sprintf("hex:%x", s)
		}
	}
	if len(s) > 64 {
		return fmt.Sprintf("%s…(%d bytes)", s[:64], len(s))
	}
	return s
}

func renderValue(rv reflect.Value) any {
	switch rv.Kind() {
	case reflect.Ptr, reflect.Interface:
		if rv.IsNil() {
			return nil
		}
		return renderValue(rv.Elem())
	case reflect.Struct:
		m := map[string]any{"_type": typeNameOfType(rv.Type())}
		for i := 0; i < rv.NumField(); i++ {
			f := rv.Type().Field(i)
			if !f.IsExported() {
				continue
			}
			m[f.Name] = renderValue(rv.Field(i))
		}
		return m
	case reflect.Slice:
		n := rv.Len()
		lim := n
		if lim > 6 {
			lim = 6
		}
		out := make([]any, 0, lim+1)
		for i := 0; i < lim; i++ {
			out = append(out, renderValue(rv.Index(i)))
		}
		if n > lim {
			out = append(out, fmt.Sprintf("…(%d elements)", n))
		}
		return out
	case reflect.String:
		return renderText(rv.String())
	case reflect.Float32:
		b := uint32(getBits(rv))
		f := math.Float32frombits(b)
		if f != f || math.IsInf(float64(f), 0) || (f == 0 && b != 0) {
			return fmt.Sprintf("f32bits:%#x", b)
		}
		return f
	case reflect.Float64:
		b := getBits(rv)
		f := math.Float64frombits(b)
		if f != f || math.IsInf(f, 0) || (f == 0 && b != 0) {
			return fmt.Sprintf("f64bits:%#x", b)
		}
		return f
	case reflect.Int8, reflect.Int16, reflect.Int32, reflect.Int64:
		return rv.Int()
	case reflect.Uint8, reflect.Uint16, reflect.Uint32, reflect.Uint64:
		return rv.Uint()
	}
	return fmt.Sprintf("%v", rv.Interface())
}

// ---------------------------------------------------------------- generation of canonical values from the pinned schema

// GenCfg is the per-run (swarm) configuration of the value generator.
type GenCfg struct {
	ListCap  int  // maximum list length
	StrCap   int  // maximum variable-text length
	WrapObj  bool // object lists sized where count x element size passes 64 KiB (16-bit size arithmetic wraps there)
	Alphabet int  // 0 printable; 1 printable + pad bytes inside; 2 adds NUL and >=0x80; 3 arbitrary bytes; 4 valid multi-byte UTF-8 text
	NumMode  int  // 0 mixed; 1 extremes; 2 random bits
	Stale    int  // what the caller leaves in computed fields: 0 zero, 1 four (as the tests), 2 random, 3 mixed
	NilBody  bool
}

var listCaps = []int{0, 1, 3, 17, 300, 65535}

func drawCfg(t *Tape, thorough bool) GenCfg {
	c := GenCfg{}
	// smaller draws = smaller values
	li := t.Intn(100)
	switch {
	case li < 10:
		c.ListCap = 0
	case li < 35:
		c.ListCap = 1
	case li < 65:
		c.ListCap = 3
	case li < 90:
		c.ListCap = 17
	case li < 99:
		c.ListCap = 300
	default:
		c.ListCap = 65535
	}
	si := t.Intn(100)
	switch {
	case si < 10:
		c.StrCap = 0
	case si < 40:
		c.StrCap = 4
	case si < 80:
		c.StrCap = 40
	case si < 98:
		c.StrCap = 600
	default:
		c.StrCap = 70000
	}
	c.Alphabet = t.Intn(5)
	c.NumMode = t.Intn(3)
	c.Stale = t.Intn(4)
	c.WrapObj = t.Intn(32) == 31
	return c
}

type Gen struct {
	t   *Tape
	cfg GenCfg
	// late registration: values of type lateFor carry this key (registered at run time, selecting
	// an existing body type) instead of a pinned one
	late    *TableKey
	lateFor string
}

func prefixMax(w int) int {
	switch w {
	case 1:
		return 255
	case 2:
		return 65535
	}
	return math.MaxInt32
}

func (g *Gen) count(prefix int) int {
	cap_ := g.cfg.ListCap
	if m := prefixMax(prefix); cap_ > m {
		cap_ = m
	}
	if cap_ == 0 {
		return 0
	}
	// bias: 0, 1, small, up to cap
	switch g.t.Intn(9) {
	case 0:
		return 0
	case 1, 2:
		return 1
	case 3, 4:
		return 1 + g.t.Intn(min(cap_, 4))
	case 5, 6:
		return 1 + g.t.Intn(cap_)
	case 7:
		return boundaryLen(g.t, cap_)
	default:
		return cap_
	}
}

// utf8Runes is what alphabet 4 draws from: 1- to 4-byte encodings.
var utf8Runes = []string{"A", "z", "7", " ", "é", "ß", "中", "文", "交", "易", "€", "𝄞", "😀"}

// utf8Fill overwrites s (in place, same length) with valid UTF-8 text, ASCII-filling what does
// not fit.
func utf8Fill(s []byte, b *bulk) {
	i := 0
	for i < len(s) {
		r := utf8Runes[b.intn(len(utf8Runes))]
		if i+len(r) > len(s) {
			r = "x"
		}
		copy(s[i:], r)
		i += len(r)
	}
}

func (g *Gen) textByte(b *bulk, pad byte) byte {
	switch g.cfg.Alphabet {
	case 0:
		return byte(0x21 + b.intn(0x7e-0x21+1))
	case 1:
		if b.intn(4) == 0 {
			return pad
		}
		if b.intn(8) == 0 {
			return ' '
		}
		return byte(0x21 + b.intn(0x7e-0x21+1))
	case 2:
		switch b.intn(6) {
		case 0:
			return 0
		case 1:
			return byte(0x80 + b.intn(0x80))
		case 2:
			return pad
		}
		return byte(0x20 + b.intn(0x7f-0x20))
	}
	return byte(b.next())
}

// fixText builds a canonical value for an N-byte padded field: at most N bytes, not
// starting (left-padded) / ending (right-padded) with the pad byte.
func (g *Gen) fixText(width int, pad byte, padLeft bool) string {
	if width == 0 {
		return ""
	}
	if width >= 3 && g.t.Intn(24) == 0 {
		if w := dictWord(g.t, width); w != "" {
			return w // letters and 1-9 only: canonical for every pad byte the protocols use
		}
	}
	var n int
	switch g.t.Intn(4) {
	case 0:
		n = width
	case 1:
		n = 0
	case 2:
		n = g.t.Intn(width + 1)
	default:
		n = width
	}
	if n == 0 {
		return ""
	}
	b := g.t.Bulk()
	s := make([]byte, n)
	for i := range s {
		s[i] = g.textByte(b, pad)
	}
	if g.cfg.Alphabet == 4 {
		utf8Fill(s, b)
	}
	edge := n - 1
	if padLeft {
		edge = 0
	}
	for s[edge] == pad {
		s[edge] = byte(0x41 + b.intn(26))
		if s[edge] == pad {
			s[edge] = '#'
		}
	}
	return string(s)
}

func (g *Gen) varText(prefix int) string {
	cap_ := g.cfg.StrCap
	if m := prefixMax(prefix); cap_ > m {
		cap_ = m
	}
	if cap_ == 0 {
		return ""
	}
	if cap_ >= 3 && g.t.Intn(24) == 0 {
		if w := dictWord(g.t, cap_); w != "" {
			return w
		}
	}
	var n int
	switch g.t.Intn(7) {
	case 0:
		n = 0
	case 1:
		n = 1
	case 2, 3:
		n = g.t.Intn(min(cap_, 24) + 1)
	case 4:
		n = g.t.Intn(cap_ + 1)
	case 5:
		n = boundaryLen(g.t, cap_)
	default:
		n = cap_
	}
	b := g.t.Bulk()
	s := make([]byte, n)
	for i := range s {
		s[i] = g.textByte(b, ' ')
	}
	if g.cfg.Alphabet == 4 {
		utf8Fill(s, b)
	}
	return string(s)
}

// lengths around which implementations change behaviour (prefix widths, typical scratch and
// chunk sizes): a value at most limit
var boundaryLens = []int{15, 16, 17, 31, 32, 33, 63, 64, 65, 127, 128, 129, 252, 253, 254, 255, 256, 257, 258, 511, 512, 513, 1023, 1024, 1025, 4095, 4096, 4097, 8191, 8192, 8193, 65534, 65535}

func boundaryLen(t *Tape, limit int) int {
	k := 0
	for k < len(boundaryLens) && boundaryLens[k] <= limit {
		k++
	}
	if k == 0 {
		return limit
	}
	return boundaryLens[t.Intn(k)]
}

func numBitsFor(k reflect.Kind, mode int, pick int, r uint64) uint64 {
	sz := uint(numSize(k) * 8)
	mask := ^uint64(0)
	if sz < 64 {
		mask = (uint64(1) << sz) - 1
	}
	if k == reflect.Float32 || k == reflect.Float64 {
		var pats []uint64
		if k == reflect.Float32 {
			pats = []uint64{0, 0x3f800000, 0x80000000, 0x7fc00000, 0x7fc00001, 0x7fa00000, 0xffc12345, 0x7f800000, 0xff800000, 0x00000001, 0x007fffff}
		} else {
			pats = []uint64{0, 0x3ff0000000000000, 0x8000000000000000, 0x7ff8000000000000, 0x7ff8000000000001, 0x7ff4000000000000, 0xfff8123456789abc, 0x7ff0000000000000, 0xfff0000000000000, 1, 0x000fffffffffffff}
		}
		if mode == 2 || pick >= len(pats) {
			return r & mask
		}
		return pats[pick]
	}
	if mode == 2 {
		return r & mask
	}
	switch pick {
	case 0:
		return 0
	case 1:
		return 1
	case 2:
		return mask // -1 / max unsigned
	case 3:
		return uint64(1) << (sz - 1) // min signed
	case 4:
		return mask >> 1 // max signed
	case 5:
		return 0x0102030405060708 & mask // asymmetric bytes: byte order visible
	case 6:
		return (2 + r%15) & mask // small integers 2..16: enumeration-like fields (platform ids, sides, flags)
	}
	if mode == 1 {
		return mask
	}
	return r & mask
}

func (g *Gen) numBits(k reflect.Kind) uint64 {
	pick := g.t.Intn(12)
	var r uint64
	if pick >= 6 || g.cfg.NumMode == 2 {
		r = g.t.Bits()
	}
	return numBitsFor(k, g.cfg.NumMode, pick, r)
}

// Value generates a canonical value of the named type.
func (g *Gen) Value(name string) any {
	v := newValue(name)
	g.fill(reflect.ValueOf(v).Elem(), schemaOf(name))
	return v
}

func schemaOf(name string) *TypeSchema {
	ts := schema.Types[name]
	if ts == nil {
		infraFatal("no pinned schema for %s", name)
	}
	return ts
}

func fieldOf(rv reflect.Value, name string) reflect.Value {
	f := rv.FieldByName(name)
	if !f.IsValid() {
		infraFatal("type %s has no field %s (pinned schema out of date with the tree: rebuild impossible)", rv.Type(), name)
	}
	return f
}

func (g *Gen) stale(k reflect.Kind) uint64 {
	mode := g.cfg.Stale
	if mode == 3 {
		mode = g.t.Intn(3)
	}
	switch mode {
	case 0:
		return 0
	case 1:
		return 4
	}
	return g.numBits(k)
}

func (g *Gen) fill(rv reflect.Value, ts *TypeSchema) {
	var key *TableKey
	if ts.Table != "" {
		tb := schema.Tables[ts.Table]
		key = &tb.Keys[g.t.Intn(len(tb.Keys))]
		if g.late != nil && ts.Name == g.lateFor {
			key = g.late
		}
	}
	g.fillWithKey(rv, ts, key)
}

func (g *Gen) fillWithKey(rv reflect.Value, ts *TypeSchema, key *TableKey) {
	for i := range ts.Fields {
		f := &ts.Fields[i]
		fv := fieldOf(rv, f.Name)
		isDisc := key != nil && f.Name == ts.Discriminator
		switch f.Kind {
		case "num":
			switch {
			case isDisc:
				fv.Set(reflect.ValueOf(key.Key).Convert(fv.Type()))
			case f.Computed != "":
				setBits(fv, g.stale(fv.Kind()))
			default:
				setBits(fv, g.numBits(fv.Kind()))
			}
		case "fixstr":
			if isDisc {
				fv.SetString(key.Key.(string))
			} else {
				fv.SetString(g.fixText(f.Width, byte(f.Pad), f.PadLeft))
			}
		case "str":
			fv.SetString(g.varText(f.Prefix))
		case "numlist":
			n := g.count(f.Prefix)
			if n == 0 && g.t.Intn(2) == 0 {
				break // nil list
			}
			sl := reflect.MakeSlice(fv.Type(), n, n)
			b := g.t.Bulk()
			ek := fv.Type().Elem().Kind()
			for j := 0; j < n; j++ {
				r := b.next()
				setBits(sl.Index(j), numBitsFor(ek, 0, int(r%9), b.next()))
			}
			setList(fv, sl)
		case "fixstrlist":
			n := g.count(f.Prefix)
			if n == 0 && g.t.Intn(2) == 0 {
				break
			}
			sl := make([]string, n)
			if n <= 8 {
				for j := range sl {
					sl[j] = g.fixText(f.Width, byte(f.Pad), f.PadLeft)
				}
			} else {
				b := g.t.Bulk()
				for j := range sl {
					sl[j] = bulkFixText(b, g, f.Width, byte(f.Pad), f.PadLeft)
				}
			}
			setList(fv, reflect.ValueOf(sl))
		case "strlist":
			n := g.count(f.Prefix)
			if n == 0 && g.t.Intn(2) == 0 {
				break
			}
			sl := make([]string, n)
			if n <= 8 {
				for j := range sl {
					sl[j] = g.varText(f.EPrefix)
				}
			} else {
				b := g.t.Bulk()
				for j := range sl {
					m := b.intn(min(g.cfg.StrCap, 12) + 1)
					s := make([]byte, m)
					for q := range s {
						s[q] = g.textByte(b, ' ')
					}
					if g.cfg.Alphabet == 4 {
						utf8Fill(s, b)
					}
					sl[j] = string(s)
				}
			}
			setList(fv, reflect.ValueOf(sl))
		case "objlist":
			n := g.count(f.Prefix)
			if w := fixedWireSize(strings.TrimPrefix(strings.TrimPrefix(f.GoType, "[]"), "*"), rv); g.cfg.WrapObj && w > 0 {
				// just past the point where count x element size no longer fits 16 bits (or twice that)
				base := (65536 + w - 1) / w * (1 + g.t.Intn(2))
				if m := base + []int{0, 1, 9}[g.t.Intn(3)]; m <= prefixMax(f.Prefix) {
					n = m
				}
			} else if n > 2000 && g.t.Intn(3) != 0 {
				n = 2000 + g.t.Intn(2) // mostly keep object lists moderate; one in three keeps its size (up to the prefix maximum)
			}
			if n == 0 && g.t.Intn(2) == 0 {
				break
			}
			et := fv.Type().Elem() // *T
			ename := typeNameOfType(et)
			sl := reflect.MakeSlice(fv.Type(), n, n)
			// nested lists multiply: keep the whole message within a few hundred KB
			saved := g.cfg
			g.cfg.ListCap = min(g.cfg.ListCap, max(1, 4096/max(n, 1)))
			g.cfg.StrCap = min(g.cfg.StrCap, max(4, 65536/max(n, 1)))
			if n <= 6 {
				for j := 0; j < n; j++ {
					sl.Index(j).Set(reflect.ValueOf(g.Value(ename)))
				}
			} else {
				// many elements: a few distinct generated ones, repeated through clones
				var protos []any
				for j := 0; j < 4; j++ {
					protos = append(protos, g.Value(ename))
				}
				b := g.t.Bulk()
				for j := 0; j < n; j++ {
					sl.Index(j).Set(reflect.ValueOf(Clone(protos[b.intn(len(protos))])))
				}
			}
			g.cfg = saved
			setList(fv, sl)
		case "obj":
			if fv.Kind() == reflect.Ptr {
				ename := typeNameOfType(fv.Type())
				fv.Set(reflect.ValueOf(g.Value(ename)))
			} else {
				g.fill(fv, schemaOf(typeNameOfType(fv.Type())))
			}
		case "body":
			if key == nil {
				infraFatal("body field without discriminator table in %s", ts.Name)
			}
			if g.cfg.NilBody {
				break
			}
			fv.Set(reflect.ValueOf(g.Value(key.Type)))
		default:
			infraFatal("unknown schema kind %s", f.Kind)
		}
	}
	g.relateFields(rv, ts)
}

// relateFields makes, now and then, a plain numeric field of a struct equal to the length of a
// sibling text or list (protocols carry such redundant lengths next to the data: an independent
// draw per field would almost never produce the coincidence that every real sender produces).
func (g *Gen) relateFields(rv reflect.Value, ts *TypeSchema) {
	if g.t.Intn(6) != 0 {
		return
	}
	var nums, sized []int
	for i := range ts.Fields {
		f := &ts.Fields[i]
		switch f.Kind {
		case "num":
			if f.Computed == "" && f.Name != ts.Discriminator {
				nums = append(nums, i)
			}
		case "str", "fixstr", "numlist", "fixstrlist", "strlist", "objlist":
			if f.Name != ts.Discriminator {
				sized = append(sized, i)
			}
		}
	}
	if len(nums) == 0 || len(sized) == 0 {
		return
	}
	nf := fieldOf(rv, ts.Fields[nums[g.t.Intn(len(nums))]].Name)
	sf := fieldOf(rv, ts.Fields[sized[g.t.Intn(len(sized))]].Name)
	setBits(nf, uint64(sf.Len()))
}

func bulkFixText(b *bulk, g *Gen, width int, pad byte, padLeft bool) string {
	n := b.intn(width + 1)
	if b.intn(2) == 0 {
		n = width
	}
	if n == 0 {
		return ""
	}
	s := make([]byte, n)
	for i := range s {
		s[i] = g.textByte(b, pad)
	}
	if g.cfg.Alphabet == 4 {
		utf8Fill(s, b)
	}
	edge := n - 1
	if padLeft {
		edge = 0
	}
	for s[edge] == pad {
		s[edge] = byte(0x41 + b.intn(26))
		if s[edge] == pad {
			s[edge] = '#'
		}
	}
	return string(s)
}

// ValueWithKey generates a frame / extended message carrying the body pinned for key index ki.
func (g *Gen) ValueWithKey(name string, ki int) any {
	ts := schemaOf(name)
	tb := schema.Tables[ts.Table]
	v := newValue(name)
	g.fillWithKey(reflect.ValueOf(v).Elem(), ts, &tb.Keys[ki%len(tb.Keys)])
	return v
}

// ---------------------------------------------------------------- layout walk (fault aiming only; never an oracle)

type Span struct {
	Off, Len int
	Kind     string // num text vartext lenprefix count disc computed
	Path     string
	LE       bool
}

// Layout walks a value with the pinned schema and returns where its parts should sit in the
// encoding.  Used only to aim faults; callers verify the total against len(encoding) and fall
// back to blind faults on a mismatch.
func Layout(v any) ([]Span, int) {
	var spans []Span
	off := 0
	layoutValue(reflect.ValueOf(v).Elem(), schemaOf(typeNameOf(v)), "$", &spans, &off)
	return spans, off
}

func layoutValue(rv reflect.Value, ts *TypeSchema, path string, spans *[]Span, off *int) {
	add := func(n int, kind, p string, le bool) {
		if len(*spans) < 4096 {
			*spans = append(*spans, Span{*off, n, kind, p, le})
		}
		*off += n
	}
	for i := range ts.Fields {
		f := &ts.Fields[i]
		fv := fieldOf(rv, f.Name)
		p := path + "." + f.Name
		switch f.Kind {
		case "num":
			k := "num"
			if f.Computed != "" {
				k = "computed"
			} else if f.Name == ts.Discriminator {
				k = "disc"
			}
			add(numSize(fv.Kind()), k, p, f.LE)
		case "fixstr":
			k := "text"
			if f.Name == ts.Discriminator {
				k = "disc"
			}
			add(f.Width, k, p, false)
		case "str":
			add(f.Prefix, "lenprefix", p, f.LE)
			add(fv.Len(), "vartext", p, false)
		case "numlist":
			add(f.Prefix, "count", p, f.LE)
			add(fv.Len()*numSize(fv.Type().Elem().Kind()), "num", p+"[]", false)
		case "fixstrlist":
			add(f.Prefix, "count", p, f.LE)
			add(fv.Len()*f.Width, "text", p+"[]", false)
		case "strlist":
			add(f.Prefix, "count", p, f.LE)
			for j := 0; j < fv.Len(); j++ {
				add(f.EPrefix, "lenprefix", fmt.Sprintf("%s[%d]", p, j), f.LE)
				add(fv.Index(j).Len(), "vartext", fmt.Sprintf("%s[%d]", p, j), false)
			}
		case "objlist":
			add(f.Prefix, "count", p, false) // pinned tree writes object-list counts big-endian
			ename := typeNameOfType(fv.Type().Elem())
			for j := 0; j < fv.Len(); j++ {
				e := fv.Index(j)
				if e.IsNil() {
					continue
				}
				layoutValue(e.Elem(), schemaOf(ename), fmt.Sprintf("%s[%d]", p, j), spans, off)
			}
		case "obj":
			if fv.Kind() == reflect.Ptr {
				if fv.IsNil() {
					continue
				}
				layoutValue(fv.Elem(), schemaOf(typeNameOfType(fv.Type())), p, spans, off)
			} else {
				layoutValue(fv, schemaOf(typeNameOfType(fv.Type())), p, spans, off)
			}
		case "body":
			if fv.IsNil() {
				continue
			}
			dn := typeNameOfType(fv.Elem().Type())
			if schema.Types[dn] == nil {
				continue
			}
			layoutValue(fv.Elem().Elem(), schemaOf(dn), p, spans, off)
		}
	}
}

func describeSpan(s Span) string {
	return fmt.Sprintf("%s@%d+%d(%s)", strings.TrimPrefix(s.Path, "$."), s.Off, s.Len, s.Kind)
}

// ---------------------------------------------------------------- relatives of a value (histories)

// variantOf returns a close relative of a message: some texts cut to a prefix, emptied or
// extended, some lists truncated, emptied or extended with copies, some numbers zeroed, nested
// parts recursively; discriminators (hence body types) are kept.  Used to build receiver and
// process histories in which what was held before is *related* to what arrives now, and as
// the next message of a stream.  A canonical value stays canonical (a cut fixed-width text is
// re-trimmed on its pad side; list lengths stay within their prefix).
func variantOf(v any, b *bulk) any {
	c := Clone(v)
	varyValue(reflect.ValueOf(c).Elem(), schemaOf(typeNameOf(c)), b)
	return c
}

func varyText(sv reflect.Value, limit int, b *bulk) {
	s := sv.String()
	initCollisions()
	if p, ok := collisionPartner[s]; ok && b.intn(4) != 0 {
		sv.SetString(p) // the other text of a pair that collides under a common 32-bit hash
		return
	}
	switch b.intn(4) {
	case 0:
		sv.SetString(s[:b.intn(len(s)+1)])
	case 1:
		sv.SetString("")
	case 2:
		if len(s) < limit {
			n := 1 + b.intn(min(limit-len(s), 3))
			ext := make([]byte, n)
			for i := range ext {
				ext[i] = byte('A' + b.intn(26))
			}
			sv.SetString(s + string(ext))
		}
	}
}

func varyList(fv reflect.Value, prefix int, b *bulk) {
	n := fv.Len()
	switch b.intn(4) {
	case 0:
		if n > 0 {
			fv.Set(fv.Slice(0, b.intn(n+1)))
		}
	case 1:
		fv.Set(reflect.Zero(fv.Type()))
	case 2:
		if n > 0 && n+3 <= prefixMax(prefix) {
			k := 1 + b.intn(3)
			out := reflect.MakeSlice(fv.Type(), n+k, n+k)
			reflect.Copy(out, fv)
			for i := 0; i < k; i++ {
				out.Index(n + i).Set(cloneValue(fv.Index(b.intn(n))))
			}
			fv.Set(out)
		}
	}
}

func varyValue(rv reflect.Value, ts *TypeSchema, b *bulk) {
	for i := range ts.Fields {
		f := &ts.Fields[i]
		fv := fieldOf(rv, f.Name)
		isDisc := f.Name == ts.Discriminator
		switch f.Kind {
		case "num":
			if !isDisc && f.Computed == "" && b.intn(4) == 0 {
				setBits(fv, 0)
			}
		case "fixstr":
			if !isDisc {
				varyText(fv, f.Width, b)
				// keep the value canonical: no pad byte on the pad side
				pad := string([]byte{byte(f.Pad)})
				if f.PadLeft {
					fv.SetString(strings.TrimLeft(fv.String(), pad))
				} else {
					fv.SetString(strings.TrimRight(fv.String(), pad))
				}
			}
		case "str":
			varyText(fv, min(prefixMax(f.Prefix), fv.Len()+8), b)
		case "numlist", "fixstrlist", "strlist":
			varyList(fv, f.Prefix, b)
		case "objlist":
			varyList(fv, f.Prefix, b)
			for j := 0; j < fv.Len() && j < 4; j++ {
				if e := fv.Index(j); !e.IsNil() {
					varyValue(e.Elem(), schemaOf(typeNameOfType(e.Type())), b)
				}
			}
		case "obj":
			if fv.Kind() == reflect.Ptr {
				if !fv.IsNil() {
					varyValue(fv.Elem(), schemaOf(typeNameOfType(fv.Type())), b)
				}
			} else {
				varyValue(fv, schemaOf(typeNameOfType(fv.Type())), b)
			}
		case "body":
			if !fv.IsNil() {
				if dn := typeNameOfType(fv.Elem().Type()); schema.Types[dn] != nil {
					varyValue(fv.Elem().Elem(), schemaOf(dn), b)
				}
			}
		}
	}
}

// breakForEncode turns a canonical value into one on which the library's Encode fails in its
// ordinary, documented way: the innermost discriminator-selected part is removed and its
// discriminator set to a key that is not registered.  It reports whether it changed anything
// (types without a discriminator table cannot be broken this way).
func breakForEncode(rv reflect.Value, ts *TypeSchema) bool {
	if ts.Table == "" {
		return false
	}
	var bodyF, discF reflect.Value
	var discFS *FieldSchema
	for i := range ts.Fields {
		f := &ts.Fields[i]
		if f.Kind == "body" {
			bodyF = fieldOf(rv, f.Name)
		}
		if f.Name == ts.Discriminator {
			discF = fieldOf(rv, f.Name)
			discFS = f
		}
	}
	if !bodyF.IsValid() || !discF.IsValid() {
		return false
	}
	if !bodyF.IsNil() {
		if dn := typeNameOfType(bodyF.Elem().Type()); schema.Types[dn] != nil {
			if breakForEncode(bodyF.Elem().Elem(), schemaOf(dn)) {
				return true
			}
		}
	}
	bodyF.Set(reflect.Zero(bodyF.Type()))
	if discF.Kind() == reflect.String {
		discF.SetString(strings.Repeat("~", max(discFS.Width, 1)))
	} else {
		setBits(discF, 0xFFFFFFFFFFFFFFF1)
	}
	return true
}

// ---------------------------------------------------------------- collision dictionary

var collisionPartner map[string]string
var collisionLens []int

func initCollisions() {
	if collisionPartner != nil {
		return
	}
	collisionPartner = map[string]string{}
	for l, ps := range collisionPairs {
		collisionLens = append(collisionLens, l)
		for _, p := range ps {
			collisionPartner[p[0]] = p[1]
			collisionPartner[p[1]] = p[0]
		}
	}
	sortInts(collisionLens)
}

func sortInts(a []int) {
	for i := 1; i < len(a); i++ {
		for j := i; j > 0 && a[j] < a[j-1]; j-- {
			a[j], a[j-1] = a[j-1], a[j]
		}
	}
}

// dictWord returns a dictionary text of at most limit bytes ("" if none fits).
func dictWord(t *Tape, limit int) string {
	initCollisions()
	k := 0
	for k < len(collisionLens) && collisionLens[k] <= limit {
		k++
	}
	if k == 0 {
		return ""
	}
	ps := collisionPairs[collisionLens[t.Intn(k)]]
	return ps[t.Intn(len(ps))][t.Intn(2)]
}

// setList stores a generated list in a message field.  When the message came from the library's
// constructor and its field already has spare capacity, the elements are appended to it, as an
// application filling a constructed message would do.
func setList(fv, sl reflect.Value) {
	if ctorMode && fv.Len() == 0 && fv.Cap() > 0 {
		fv.Set(reflect.AppendSlice(fv, sl))
		return
	}
	fv.Set(sl)
}

// lateRegister registers, through the table's exported registration function, a key that the
// pinned table does not have, selecting the body type of an existing key; values of type name
// generated by g afterwards carry that key.  It reports whether name has a table.
func lateRegister(c *RunCtx, g *Gen, name string) bool {
	ts := schema.Types[name]
	if ts == nil || ts.Table == "" {
		return false
	}
	reg := tableRegister[ts.Table]
	tb := schema.Tables[ts.Table]
	if reg == nil || tb == nil {
		return false
	}
	base := tb.Keys[g.t.Intn(len(tb.Keys))]
	ctor := typeCtors[base.Type]
	var key any
	switch tb.KeyType {
	case "string":
		w := 3
		for i := range ts.Fields {
			if ts.Fields[i].Name == ts.Discriminator && ts.Fields[i].Width > 0 {
				w = ts.Fields[i].Width
			}
		}
		b := make([]byte, w)
		b[0] = 'Z'
		for i := 1; i < w; i++ {
			b[i] = byte('A' + g.t.Intn(26))
		}
		key = string(b)
	case "uint32":
		key = uint32(0x7F000000 + g.t.Intn(1<<20))
		if g.t.Intn(2) == 0 {
			key = uint32(1 + g.t.Intn(255)) // small keys: dense dispatch arrays
		}
	case "uint16":
		key = uint16(0x7F00 + g.t.Intn(255))
		if g.t.Intn(2) == 0 {
			key = uint16(5 + g.t.Intn(250))
		}
	default:
		return false
	}
	for _, k := range tb.Keys {
		if k.Key == key {
			return false
		}
	}
	reg(key, func() codec.BinaryCodec {
		v, _ := ctor().(codec.BinaryCodec)
		return v
	})
	g.late = &TableKey{Key: key, Type: base.Type}
	g.lateFor = name
	c.Fire("cfg.late-registration")
	c.Logf("CONFIGURATION: the application registered %v -> %s in table %s at run time", key, base.Type, ts.Table)
	return true
}

// nilNested sets one nested pointer part (schema kind "obj" held by pointer) reachable from a
// value to nil and reports whether it found one.  Such values are outside the encoder's
// guarantee (C17 says so): Encode may fail on them in any way - which is what makes them
// useful as the failing operation of a history.
func nilNested(rv reflect.Value, ts *TypeSchema, skip int) bool {
	// skip: how many nested pointer parts to leave in place before the one that is removed (an
	// encoder then fails AFTER it has written something: error paths with partial output)
	var cands []reflect.Value
	var walk func(rv reflect.Value, ts *TypeSchema)
	walk = func(rv reflect.Value, ts *TypeSchema) {
		for i := range ts.Fields {
			f := &ts.Fields[i]
			fv := fieldOf(rv, f.Name)
			switch f.Kind {
			case "obj":
				if fv.Kind() == reflect.Ptr && !fv.IsNil() {
					cands = append(cands, fv)
				}
			case "body":
				if !fv.IsNil() {
					if dn := typeNameOfType(fv.Elem().Type()); schema.Types[dn] != nil {
						walk(fv.Elem().Elem(), schemaOf(dn))
					}
				}
			}
		}
	}
	walk(rv, ts)
	if len(cands) == 0 {
		return false
	}
	fv := cands[skip%len(cands)]
	fv.Set(reflect.Zero(fv.Type()))
	return true
}

// fixedWireSize is the number of bytes one element of an object list takes on the wire when
// every field of the element type has a fixed width (0 otherwise), by the pinned schema.
func fixedWireSize(goType string, parent reflect.Value) int {
	name := typeNameOfType(parent.Type())
	if i := strings.LastIndex(name, "."); i >= 0 {
		name = name[:i+1] + goType
	}
	ts := schema.Types[name]
	if ts == nil {
		return 0
	}
	w := 0
	for i := range ts.Fields {
		f := &ts.Fields[i]
		switch f.Kind {
		case "num", "fixstr":
			w += f.Width
		default:
			return 0
		}
	}
	return w
}
