// simcheck: deterministic-simulation harness for fin-proto-go (see /verif/DESIGN.md).
//
//	simcheck run    -prop C07 -tier quick [-seed N] [-workers 16] -evidence <file> -replays <dir> -known <file>
//	simcheck worker -prop C07 -tier quick -seed N -w k -n W -count total   (internal)
//	simcheck exec   -prop C07 -tier quick (-seed N -i I | -tape file)      (internal; one run in a fresh process)
//	simcheck replay -file <replay.json>
//	simcheck selftest ...
package main

import (
	"bufio"
	"encoding/json"
	"flag"
	"fmt"
	"os"
	"runtime/pprof"
	"strconv"
	"strings"
	"syscall"
	"time"

	"github.com/xinchentechnote/fin-proto-go/simrt"
)

const (
	exitOK        = 0
	exitViolation = 1
	exitInfra     = 2
	exitExecViol  = 3 // `exec` child: the run violated an oracle (JSON on stdout)
)

// memory of the simulated machine (address-space limit of decode workers)
const simulatedMemory = 2 << 30

func main() {
	if len(os.Args) < 2 {
		fmt.Fprintln(os.Stderr, "usage: simcheck run|worker|exec|replay|selftest ...")
		os.Exit(exitInfra)
	}
	defer func() {
		if r := recover(); r != nil {
			if ie, ok := r.(infraError); ok {
				fmt.Fprintln(os.Stderr, ie.Error())
				os.Exit(exitInfra)
			}
			panic(r)
		}
	}()
	loadSchema()
	switch os.Args[1] {
	case "run":
		os.Exit(cmdRun(os.Args[2:]))
	case "worker":
		os.Exit(cmdWorker(os.Args[2:]))
	case "exec":
		os.Exit(cmdExec(os.Args[2:]))
	case "replay":
		os.Exit(cmdReplay(os.Args[2:]))
	case "selftest":
		os.Exit(cmdSelftest(os.Args[2:]))
	case "list":
		for _, k := range sortedKeys(scenarios) {
			fmt.Println(k)
		}
	default:
		fmt.Fprintln(os.Stderr, "unknown command", os.Args[1])
		os.Exit(exitInfra)
	}
}

func getScenario(prop string) *scenario {
	sc := scenarios[prop]
	if sc == nil {
		infraFatal("no scenario for property %q", prop)
	}
	if sc.Race && !simrt.RaceEnabled {
		infraFatal("property %s needs the -race build of simcheck", prop)
	}
	return sc
}

func applyMemLimit(sc *scenario) {
	if !sc.MemLimit || simrt.RaceEnabled {
		return
	}
	lim := syscall.Rlimit{Cur: simulatedMemory, Max: simulatedMemory}
	if err := syscall.Setrlimit(syscall.RLIMIT_AS, &lim); err != nil {
		infraFatal("cannot set the simulated memory limit: %v", err)
	}
}

// ---------------------------------------------------------------- worker

func cmdWorker(args []string) int {
	fs := flag.NewFlagSet("worker", flag.ExitOnError)
	prop := fs.String("prop", "", "")
	tier := fs.String("tier", "quick", "")
	seed := fs.Uint64("seed", 1, "")
	w := fs.Uint64("w", 0, "worker index")
	n := fs.Uint64("n", 1, "worker count")
	from := fs.Uint64("from", 0, "first run index of this worker's stripe to execute")
	count := fs.Uint64("count", 0, "total runs in the batch")
	samples := fs.Uint64("samples", 0, "emit full traces for run indices below this")
	known := fs.String("known", "", "")
	deadline := fs.Int64("deadline", 0, "unix seconds after which the worker stops (wall-clock cap; the evidence reports what was done)")
	prof := fs.String("cpuprofile", "", "")
	rpp := fs.Int64("rpp", -1, "runs per process before asking for a restart (-1 = the scenario's default, 0 = never)")
	fs.Parse(args)
	if *prof != "" {
		f, _ := os.Create(*prof)
		pprof.StartCPUProfile(f)
		defer pprof.StopCPUProfile()
	}
	sc := getScenario(*prop)
	applyMemLimit(sc)
	perProc := sc.RunsPerProcess
	if *rpp >= 0 {
		perProc = uint64(*rpp)
	} else if perProc == 0 && *w%2 == 1 {
		// single-task scenarios: the workers with an odd stripe number hand over to a fresh process
		// every 2500 runs, so that a batch contains many first-calls-of-a-process (memoised images,
		// lazily built tables, "first frame of its kind" paths); the even ones live for the whole
		// batch (state that builds up over many calls)
		perProc = 2500
	}
	kn := loadKnown(*known, *prop)
	if n, _ := strconv.Atoi(os.Getenv("SIMCHECK_NSITES")); n > 0 {
		simrt.SiteHits = make([]uint32, n)
	}
	out := bufio.NewWriterSize(os.Stdout, 1<<16)
	stats := newStats()
	startTicks := simrt.Now()
	done := uint64(0)
	flushed := uint64(0)
	restartAt := int64(-1)
	// counters go to the parent as deltas every 64 runs, so that little is lost if this process
	// is killed by a run that aborts it
	flushStats := func() {
		stats.add("ticks", simrt.Now()-startTicks)
		startTicks = simrt.Now()
		stats.add("runs", done-flushed)
		flushed = done
		b, _ := json.Marshal(stats)
		fmt.Fprintf(out, "S %s\n", b)
		stats.Counters = map[string]uint64{}
	}
	for i := *from; i < *count; i++ {
		if i%*n != *w {
			continue
		}
		if *deadline != 0 && time.Now().Unix() > *deadline {
			fmt.Fprintf(out, "D %d\n", i)
			break
		}
		fmt.Fprintf(out, "B %d\n", i)
		out.Flush()
		tape := NewTape(runSeed(*seed, *prop, i))
		res := executeRun(sc, *tier, tape, stats, i < *samples, kn, i)
		done++
		if res.Infra != "" {
			fmt.Fprintf(out, "I %d %s\n", i, strconv.Quote(res.Infra))
			out.Flush()
			return exitInfra
		}
		if res.Violation != nil {
			b, _ := json.Marshal(res)
			fmt.Fprintf(out, "V %d %s\n", i, b)
		} else if i < *samples {
			b, _ := json.Marshal(res)
			fmt.Fprintf(out, "T %d %s\n", i, b)
		}
		nt := 0
		if res.NonTrivial {
			nt = 1
		}
		fmt.Fprintf(out, "E %d %016x %016x %d\n", i, res.FP, res.Aux, nt)
		if done%64 == 0 {
			flushStats()
		}
		if perProc != 0 && done >= perProc && i+*n < *count {
			// hand the rest of the stripe to a fresh process (cold library state)
			restartAt = int64(i + 1)
			break
		}
	}
	flushStats()
	if simrt.SiteHits != nil {
		// which instrumented statements of the library this worker executed (coverage probe)
		var sb strings.Builder
		for id, n := range simrt.SiteHits {
			if n > 0 {
				fmt.Fprintf(&sb, "%x,", id)
			}
		}
		fmt.Fprintf(out, "C %s\n", sb.String())
	}
	if restartAt >= 0 {
		fmt.Fprintf(out, "N %d\n", restartAt)
	} else {
		fmt.Fprintf(out, "F\n")
	}
	out.Flush()
	return exitOK
}

// ---------------------------------------------------------------- exec (one run, fresh process)

type replayFile struct {
	Property  string     `json:"property"`
	Tier      string     `json:"tier"`
	Seed      uint64     `json:"seed"`
	Index     uint64     `json:"run_index"`
	Violation *Violation `json:"violation"`
	Fatal     string     `json:"fatal,omitempty"` // "", "oom-abort", "data-race", "fatal-error"
	Tape      []uint64   `json:"tape"`
	Trace     []string   `json:"trace"`
	Shrink    string     `json:"shrink,omitempty"`
	Flaky     string     `json:"nondeterministic,omitempty"`
	Prelude   []uint64   `json:"prelude_runs,omitempty"` // run indices (same property, tier and seed) executed in the same process before this run: state the library keeps across calls
	Note      string     `json:"note,omitempty"`
}

func cmdExec(args []string) int {
	fs := flag.NewFlagSet("exec", flag.ExitOnError)
	prop := fs.String("prop", "", "")
	tier := fs.String("tier", "quick", "")
	seed := fs.Uint64("seed", 1, "")
	idx := fs.Int64("i", -1, "")
	tapeFile := fs.String("tape", "", "JSON file holding a tape ([]uint64) or a replay file")
	known := fs.String("known", "", "")
	preludeF := fs.String("prelude", "", "comma-separated run indices to execute first in this process (results ignored)")
	fs.Parse(args)
	sc := getScenario(*prop)
	applyMemLimit(sc)
	var tape *Tape
	if *preludeF != "" {
		kn0 := loadKnown(*known, *prop)
		if strings.HasPrefix(*preludeF, "@") {
			b, err := os.ReadFile((*preludeF)[1:])
			if err != nil {
				infraFatal("prelude file: %v", err)
			}
			*preludeF = strings.TrimSpace(string(b))
		}
		for _, f := range strings.Split(*preludeF, ",") {
			j, err := strconv.ParseUint(f, 10, 64)
			if err != nil {
				infraFatal("bad -prelude")
			}
			executeRun(sc, *tier, NewTape(runSeed(*seed, *prop, j)), newStats(), false, kn0, j)
		}
	}
	if *tapeFile != "" {
		b, err := os.ReadFile(*tapeFile)
		if err != nil {
			infraFatal("%v", err)
		}
		var vals []uint64
		if err := json.Unmarshal(b, &vals); err != nil {
			var rf replayFile
			if err2 := json.Unmarshal(b, &rf); err2 != nil {
				infraFatal("tape file: %v / %v", err, err2)
			}
			vals = rf.Tape
		}
		tape = ReplayTape(vals)
	} else {
		if *idx < 0 {
			infraFatal("exec needs -i or -tape")
		}
		tape = NewTape(runSeed(*seed, *prop, uint64(*idx)))
	}
	kn := loadKnown(*known, *prop)
	// the BEGIN marker lets the parent tell "died inside the run" from "died before it"
	fmt.Println("B 0")
	res := executeRun(sc, *tier, tape, newStats(), true, kn, uint64(max(*idx, 0)), true)
	if res.Infra != "" {
		fmt.Fprintln(os.Stderr, "INFRA:", res.Infra)
		return exitInfra
	}
	b, _ := json.Marshal(res)
	fmt.Printf("R %s\n", b)
	if res.Violation != nil {
		return exitExecViol
	}
	return exitOK
}
