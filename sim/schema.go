package main

import (
	_ "embed"
	"encoding/json"
	"fmt"
	"sort"
)

//go:embed pinned_schema.json
var pinnedSchemaJSON []byte

type FieldSchema struct {
	Name     string `json:"name"`
	GoType   string `json:"gotype"`
	Kind     string `json:"kind"` // num fixstr str numlist fixstrlist strlist objlist obj body
	LE       bool   `json:"le"`
	Width    int    `json:"width"`
	Pad      int    `json:"pad"`
	PadLeft  bool   `json:"padleft"`
	Prefix   int    `json:"prefix"`
	EPrefix  int    `json:"eprefix"`
	Computed string `json:"computed"` // "", "length", "checksum"
	Algo     string `json:"algo"`
}

type TypeSchema struct {
	Name          string
	Pkg           string        `json:"pkg"`
	File          string        `json:"file"`
	Fields        []FieldSchema `json:"fields"`
	Discriminator string        `json:"discriminator"`
	Table         string        `json:"table"`
}

type TableKey struct {
	Key  any    `json:"key"`
	Type string `json:"type"`
}

type TableSchema struct {
	KeyType string     `json:"keytype"`
	Keys    []TableKey `json:"keys"`
}

type Schema struct {
	Types  map[string]*TypeSchema  `json:"types"`
	Tables map[string]*TableSchema `json:"tables"`
	Names  []string                `json:"-"` // sorted type names
	Frames []string                `json:"-"` // the five frame types
	ByPkg  map[string][]string     `json:"-"`
	// which tables can carry type X as a body: type name -> list of (frame/parent type, key index)
}

var schema *Schema

func loadSchema() {
	s := &Schema{}
	if err := json.Unmarshal(pinnedSchemaJSON, s); err != nil {
		infraFatal("pinned schema: %v", err)
	}
	s.ByPkg = map[string][]string{}
	for n, t := range s.Types {
		t.Name = n
		s.Names = append(s.Names, n)
		if _, ok := typeCtors[n]; !ok {
			infraFatal("pinned schema type %s has no constructor", n)
		}
	}
	sort.Strings(s.Names)
	for _, n := range s.Names {
		s.ByPkg[s.Types[n].Pkg] = append(s.ByPkg[s.Types[n].Pkg], n)
	}
	for _, tb := range s.Tables {
		for i := range tb.Keys {
			if f, ok := tb.Keys[i].Key.(float64); ok {
				switch tb.KeyType {
				case "uint32":
					tb.Keys[i].Key = uint32(f)
				case "uint16":
					tb.Keys[i].Key = uint16(f)
				default:
					infraFatal("unexpected key type %s", tb.KeyType)
				}
			}
			if _, ok := s.Types[tb.Keys[i].Type]; !ok {
				infraFatal("table refers to unknown type %s", tb.Keys[i].Type)
			}
		}
	}
	s.Frames = []string{"sse.SseBinary", "szse.SzseBinary", "risk.RcBinary", "sample.RootPacket", "bjse.BjseBinary"}
	for _, f := range s.Frames {
		if s.Types[f] == nil {
			infraFatal("frame %s missing from schema", f)
		}
	}
	schema = s
}

func infraFatal(format string, a ...any) {
	panic(infraError{fmt.Sprintf(format, a...)})
}

type infraError struct{ msg string }

func (e infraError) Error() string { return "harness/infrastructure error: " + e.msg }
