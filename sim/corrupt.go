package main

import (
	"fmt"
)

// Stream faults applied by the simulated wire.  Every function returns the faulted bytes and
// a description; the caller Fires the fault kind when the bytes actually changed.

func putN(b []byte, width int, le bool, v uint64) {
	for i := 0; i < width; i++ {
		sh := uint(8 * i)
		if !le {
			sh = uint(8 * (width - 1 - i))
		}
		b[i] = byte(v >> sh)
	}
}

func spansOfKind(spans []Span, kinds ...string) []Span {
	var out []Span
	for _, s := range spans {
		for _, k := range kinds {
			if s.Kind == k && s.Len > 0 {
				out = append(out, s)
			}
		}
	}
	return out
}

// flipBits flips 1-3 bits, uniformly or aimed at structural spans.
func flipBits(t *Tape, w []byte, spans []Span) ([]byte, string) {
	if len(w) == 0 {
		return w, "flip(none: empty)"
	}
	out := cloneBytes(w)
	n := 1 + t.Intn(3)
	desc := ""
	structural := spansOfKind(spans, "lenprefix", "count", "disc", "computed")
	for i := 0; i < n; i++ {
		var pos int
		if len(structural) > 0 && t.Intn(2) == 1 {
			s := structural[t.Intn(len(structural))]
			pos = s.Off + t.Intn(s.Len)
			if pos >= len(out) {
				pos = t.Intn(len(out))
			}
		} else {
			pos = t.Intn(len(out))
		}
		bit := t.Intn(8)
		out[pos] ^= 1 << uint(bit)
		desc += fmt.Sprintf(" byte%d^bit%d", pos, bit)
	}
	return out, "flip" + desc
}

// hostilePrefix rewrites one length/count prefix to an absurd value.
func hostilePrefix(t *Tape, w []byte, spans []Span) ([]byte, string, bool) {
	pre := spansOfKind(spans, "lenprefix", "count")
	out := cloneBytes(w)
	if len(pre) == 0 || t.Intn(6) == 5 {
		// blind: maximal bytes somewhere
		if len(out) == 0 {
			return out, "hostile(none)", false
		}
		pos := t.Intn(len(out))
		n := 1 + t.Intn(4)
		for i := pos; i < len(out) && i < pos+n; i++ {
			out[i] = 0xFF
		}
		return out, fmt.Sprintf("hostile-blind ff x%d @%d", n, pos), true
	}
	s := pre[t.Intn(len(pre))]
	if s.Off+s.Len > len(out) {
		return out, "hostile(aim past end)", false
	}
	maxv := uint64(1)<<(8*uint(s.Len)) - 1
	var v uint64
	what := ""
	switch t.Intn(8) {
	case 5:
		// a power of two somewhere in the prefix's range (wrap-arounds of count*width, limits
		// that only catch the extremes)
		sh := uint(1 + t.Intn(8*s.Len-1))
		v, what = uint64(1)<<sh, fmt.Sprintf("2^%d", sh)
		if t.Intn(2) == 0 && v > 1 {
			v--
			what += "-1"
		}
	case 6:
		// moderate: larger than what is present, far below the maximum (a claim that fits state
		// left by earlier, honest traffic)
		v, what = uint64(256+t.Intn(65280)), "moderate"
		if v > maxv {
			v = maxv
		}
	case 7:
		v, what = (maxv+1)/2+(maxv+1)/4, "three-quarter-range"
	case 0:
		v, what = maxv, "max"
	case 1:
		v, what = maxv-1, "max-1"
	case 2:
		v, what = (maxv+1)/2, "half-range"
	case 3:
		rest := uint64(len(out) - s.Off - s.Len)
		v, what = rest+1+uint64(t.Intn(4)), "just-beyond-present"
		if v > maxv {
			v = maxv
		}
	default:
		v, what = maxv-uint64(t.Intn(16)), "near-max"
	}
	putN(out[s.Off:], s.Len, s.LE, v)
	dup := ""
	if t.Intn(3) == 0 {
		// the same claim written into a plain numeric field of the same width in front of the
		// prefix as well (protocols that carry a length twice: a check that compares the two
		// copies with each other is satisfied by a consistent lie)
		for i := len(spans) - 1; i >= 0; i-- {
			n := spans[i]
			if n.Kind == "num" && n.Len == s.Len && n.Off+n.Len <= s.Off && s.Off-n.Off <= 64 {
				putN(out[n.Off:], n.Len, n.LE, v)
				dup = " (also written into " + describeSpan(n) + ")"
				break
			}
		}
	}
	// optionally cut the tail so that only a handful of bytes follow the hostile prefix
	cut := false
	if t.Intn(3) > 0 {
		keep := s.Off + s.Len + t.Intn(9)
		if keep < len(out) {
			out = out[:keep]
			cut = true
		}
	}
	return out, fmt.Sprintf("hostile %s=%s(%#x)%s cut=%v", describeSpan(s), what, v, dup, cut), true
}

// foreignPeer rewrites field contents the way a peer that is not this library might have
// produced them: framing intact, arbitrary bytes inside text and numeric fields, wrong
// self-computed fields.
func foreignPeer(t *Tape, w []byte, spans []Span) ([]byte, string, int) {
	out := cloneBytes(w)
	changed := 0
	b := t.Bulk()
	mode := t.Intn(4)
	for _, s := range spans {
		if s.Len == 0 || s.Off+s.Len > len(out) {
			continue
		}
		switch s.Kind {
		case "text", "vartext":
			if b.intn(3) == 0 {
				continue
			}
			seg := out[s.Off : s.Off+s.Len]
			for i := range seg {
				switch mode {
				case 0: // pads and spaces everywhere
					seg[i] = []byte{' ', '0', 0, 'A', ' ', '0'}[b.intn(6)]
				case 1:
					seg[i] = byte(b.next())
				case 2: // all pad
					seg[i] = []byte{' ', '0', 0}[b.intn(3)]
					if i > 0 {
						seg[i] = seg[0]
					}
				default:
					if b.intn(2) == 0 {
						seg[i] = ' '
					} else {
						seg[i] = byte(0x21 + b.intn(0x5e))
					}
				}
			}
			changed++
		case "num":
			if b.intn(2) == 0 {
				continue
			}
			seg := out[s.Off : s.Off+s.Len]
			for i := range seg {
				seg[i] = byte(b.next())
			}
			switch b.intn(8) {
			case 0, 1:
				if s.Len >= 4 { // NaN-looking patterns
					for i := range seg {
						seg[i] = 0xFF
					}
					seg[b.intn(len(seg))] = 0x7F
				}
			case 2:
				// only the sign bit set, in either byte order: -0.0 for floats, the most negative
				// integer - values an encoder fast path for "zero" or "small" may mishandle
				for i := range seg {
					seg[i] = 0
				}
				if b.intn(2) == 0 {
					seg[0] = 0x80
				} else {
					seg[len(seg)-1] = 0x80
				}
			case 3:
				for i := range seg {
					seg[i] = 0
				}
				if b.intn(2) == 0 {
					seg[b.intn(len(seg))] = 1
				}
			}
			changed++
		case "computed":
			if b.intn(2) == 0 {
				continue
			}
			seg := out[s.Off : s.Off+s.Len]
			for i := range seg {
				seg[i] = byte(b.next())
			}
			changed++
		}
	}
	return out, fmt.Sprintf("foreign(mode %d, %d fields rewritten)", mode, changed), changed
}

func noise(t *Tape, n int) []byte {
	b := t.Bulk()
	out := make([]byte, n)
	for i := range out {
		out[i] = byte(b.next())
	}
	return out
}

// unknownDiscriminator rewrites a discriminator span to a value that is (almost surely) not
// registered.
func unknownDiscriminator(t *Tape, w []byte, spans []Span) ([]byte, string, bool) {
	ds := spansOfKind(spans, "disc")
	if len(ds) == 0 {
		return w, "", false
	}
	s := ds[t.Intn(len(ds))]
	if s.Off+s.Len > len(w) {
		return w, "", false
	}
	out := cloneBytes(w)
	seg := out[s.Off : s.Off+s.Len]
	switch t.Intn(7) {
	case 4:
		// near miss of a registered textual key: what number parsers and trimmers treat specially
		// (sign, blank, hex/exponent letters, NUL) in front of or among digits
		b := t.Bulk()
		for i := range seg {
			seg[i] = byte('0' + b.intn(10))
		}
		seg[b.intn(len(seg))] = []byte{'-', '+', ' ', 'x', 'e', '.', 0, '_', 0x80}[b.intn(9)]
		if b.intn(2) == 0 {
			seg[0] = []byte{'-', '+', ' '}[b.intn(3)]
		}
	case 5:
		if t.Intn(2) == 0 {
			// near miss of a registered textual key: one digit replaced by another digit (keys that a
			// later protocol revision might define)
			pos := t.Intn(len(seg))
			if seg[pos] >= '0' && seg[pos] <= '9' {
				seg[pos] = byte('0' + (int(seg[pos]-'0')+1+t.Intn(9))%10)
				break
			}
		}
		// near miss of a registered numeric key: the registered value with one bit changed
		seg[t.Intn(len(seg))] ^= 1 << uint(t.Intn(8))
	case 6:
		// extremes
		v := []byte{0x00, 0x7F, 0x80, 0xFF}[t.Intn(4)]
		for i := range seg {
			seg[i] = v
		}
		if t.Intn(2) == 0 {
			seg[0] ^= 0x80
		}
	case 0:
		for i := range seg {
			seg[i] = 0xFF
		}
	case 1:
		for i := range seg {
			seg[i] = ' '
		}
	case 2:
		seg[len(seg)-1] = ' '
	default:
		b := t.Bulk()
		for i := range seg {
			seg[i] = byte(b.next())
		}
	}
	return out, fmt.Sprintf("unknown-discriminator %s := %x", describeSpan(s), seg), true
}

// appendedFields: a frame from a peer on a newer protocol revision - k extra bytes behind the
// body (before the trailer) and the self-computed length field covering them.  Only for the
// frame types with a self-computed length.
func appendedFields(t *Tape, w []byte, name string) ([]byte, bool) {
	g := frameGeoms[name]
	if g == nil || !g.Computed || len(w) < g.HeaderLen+g.TrailerLen {
		return nil, false
	}
	k := 1 + t.Intn(12)
	bodyEnd := len(w) - g.TrailerLen
	out := append([]byte(nil), w[:bodyEnd]...)
	out = append(out, noise(t, k)...)
	out = append(out, w[bodyEnd:]...)
	cur := uint64(get32(out[g.LenOff:], g.LE))
	putN(out[g.LenOff:], 4, g.LE, uint64(bodyEnd-g.HeaderLen+k))
	_ = cur
	return out, true
}
