package main

import "runtime/debug"

func debugStack() string { return string(debug.Stack()) }
