package main

import (
	"encoding/json"

	"fmt"
	"github.com/xinchentechnote/fin-proto-go/simrt"
	"os"
	"sort"
	"strings"
)

// Violation is a failed oracle clause.
type Violation struct {
	Property string `json:"property"`
	Class    string `json:"class"`  // oracle clause, e.g. "C05/wire-checksum"
	Sig      string `json:"sig"`    // class + what was hit (type, history/fault kind): key for known findings
	Detail   string `json:"detail"` // human-readable
}

type runAbort struct{}

// Stats are the per-worker counters that end up in the evidence file.  Everything here is
// counted when it actually happens.
type Stats struct {
	Counters map[string]uint64 `json:"counters"`
}

func newStats() *Stats { return &Stats{Counters: map[string]uint64{}} }

func (s *Stats) add(k string, n uint64) { s.Counters[k] += n }

func (s *Stats) merge(o *Stats) {
	for k, v := range o.Counters {
		if strings.HasPrefix(k, "max.") {
			if v > s.Counters[k] {
				s.Counters[k] = v
			}
			continue
		}
		s.Counters[k] += v
	}
}

// RunCtx is one simulated run.
type RunCtx struct {
	Prop     string
	Tier     string
	Thorough bool
	T        *Tape
	Stats    *Stats
	Tracing  bool
	Live     bool // exec child: stream trace lines to stdout as they happen (survives a process abort)
	Trace    []string
	fired    bool // some fault / history / switch actually fired
	oracles  int  // oracle clauses evaluated on real library output
	viol     *Violation
	Aux      uint64            // secondary distinctness measure (C19/C20: hash of the interleaving)
	Known    map[string]string // open known findings: sig -> description
	KnownHit []string
	Index    uint64
}

func (c *RunCtx) Fire(kind string) {
	c.fired = true
	c.Stats.add("fault."+kind, 1)
	if c.Tracing {
		c.emit("FAULT " + kind)
	}
}

func (c *RunCtx) Probe(name string) { c.Stats.add("probe."+name, 1) }

func (c *RunCtx) Count(name string, n uint64) { c.Stats.add(name, n) }

func (c *RunCtx) Oracle(name string) {
	c.oracles++
	c.Stats.add("oracle."+name, 1)
}

func (c *RunCtx) Logf(format string, a ...any) {
	if c.Tracing {
		c.emit(fmt.Sprintf(format, a...))
	}
}

func (c *RunCtx) emit(line string) {
	c.Trace = append(c.Trace, line)
	if c.Live {
		fmt.Printf("L %s\n", strings.ReplaceAll(line, "\n", "\\n"))
	}
}

// LogJSON adds a rendered value to the trace.
func (c *RunCtx) LogValue(label string, v any) {
	if c.Tracing {
		b, _ := json.Marshal(Render(v))
		s := string(b)
		if len(s) > 3000 {
			s = s[:3000] + "…"
		}
		c.emit(label + " " + s)
	}
}

// Fail records a violated oracle clause.  A violation whose signature is listed as an open
// known finding is counted and the run continues; anything else ends the run.
func (c *RunCtx) Fail(class, sigExtra, format string, a ...any) {
	sig := class
	if sigExtra != "" {
		sig += ":" + sigExtra
	}
	if _, ok := c.Known[sig]; ok {
		c.KnownHit = append(c.KnownHit, sig)
		c.Stats.add("known."+sig, 1)
		return
	}
	c.viol = &Violation{Property: c.Prop, Class: class, Sig: sig, Detail: fmt.Sprintf(format, a...)}
	c.Logf("VIOLATED %s: %s", sig, c.viol.Detail)
	panic(runAbort{})
}

func hexClip(b []byte, n int) string {
	if len(b) <= n {
		return fmt.Sprintf("%x", b)
	}
	return fmt.Sprintf("%x…(%d bytes)", b[:n], len(b))
}

// ---------------------------------------------------------------- scenario registry

type scenario struct {
	Prop             string
	Run              func(c *RunCtx)
	Race             bool   // needs the -race build
	MemLimit         bool   // worker runs under the simulated machine's address-space limit
	AbortIsViolation bool   // an out-of-memory abort of the process is this property's violation (otherwise: counted, skipped)
	RunsPerProcess   uint64 // restart the worker process after this many runs (0 = never): cold-start coverage
	Level            string // evidence level
	Rule             string
	Quick            uint64 // runs per tier
	Thorough         uint64
	Assumptions      []string
}

var scenarios = map[string]*scenario{}

func register(s *scenario) { scenarios[s.Prop] = s }

// ---------------------------------------------------------------- executing one run

type RunResult struct {
	Index      uint64     `json:"index"`
	Violation  *Violation `json:"violation"`
	KnownHit   []string   `json:"known_hit,omitempty"`
	Tape       []uint64   `json:"tape,omitempty"`
	Trace      []string   `json:"trace,omitempty"`
	FP         uint64     `json:"fp"`
	NonTrivial bool       `json:"nontrivial"`
	Aux        uint64     `json:"aux,omitempty"`
	Infra      string     `json:"infra,omitempty"`
}

func executeRun(sc *scenario, tier string, tape *Tape, stats *Stats, tracing bool, known map[string]string, index uint64, live ...bool) (res RunResult) {
	c := &RunCtx{Live: len(live) > 0 && live[0], Prop: sc.Prop, Tier: tier, Thorough: tier == "thorough", T: tape, Stats: stats, Tracing: tracing, Known: known, Index: index}
	func() {
		defer func() {
			if r := recover(); r != nil {
				switch x := r.(type) {
				case runAbort:
				case tapeOverflow:
					res.Infra = "tape overflow"
				case infraError:
					res.Infra = x.msg
				case simrt.LibraryFatal:
					// the library did, outside any simulated task, what kills or hangs a real process
					if sc.Race || sc.Prop == "C09" {
						// C09: "never aborts the process, never hangs" - a lock that is never released, an
						// unlock of an unlocked mutex
						c.viol = &Violation{Property: sc.Prop, Class: sc.Prop + "/fatal", Sig: sc.Prop + "/fatal", Detail: "the library did what aborts or hangs a real process: " + x.Msg}
					} else {
						res.Infra = "library fatal outside this property's subject: " + x.Msg
					}
				default:
					// a panic that escaped a scenario is a harness bug, never a VIOLATION
					res.Infra = fmt.Sprintf("harness panic: %v\n%s", r, debugStack())
				}
			}
		}()
		simrt.SetMapSeed(0)
		ctorMode = tape.Intn(2) == 1
		sc.Run(c)
	}()
	res.Index = index
	res.Violation = c.viol
	res.KnownHit = c.KnownHit
	res.FP = tape.Fingerprint()
	res.NonTrivial = c.fired && c.oracles > 0
	res.Aux = c.Aux
	if tracing || c.viol != nil {
		res.Tape = append([]uint64(nil), tape.Out...)
		res.Trace = c.Trace
	}
	return
}

// ---------------------------------------------------------------- known findings

type knownFile struct {
	Open []struct {
		Property string `json:"property"`
		Sig      string `json:"sig"`
		What     string `json:"what"`
	} `json:"open"`
	Fixed []string `json:"fixed"`
}

func loadKnown(path, prop string) map[string]string {
	m := map[string]string{}
	if path == "" {
		return m
	}
	b, err := os.ReadFile(path)
	if err != nil {
		if os.IsNotExist(err) {
			return m
		}
		infraFatal("known findings: %v", err)
	}
	var k knownFile
	if err := json.Unmarshal(b, &k); err != nil {
		infraFatal("known findings: %v", err)
	}
	for _, o := range k.Open {
		if o.Property == prop {
			m[o.Sig] = o.What
		}
	}
	return m
}

func sortedKeys[V any](m map[string]V) []string {
	ks := make([]string, 0, len(m))
	for k := range m {
		ks = append(ks, k)
	}
	sort.Strings(ks)
	return ks
}

func joinTrace(t []string) string { return strings.Join(t, "\n") }
