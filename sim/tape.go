package main

import "math/bits"

// ---------------------------------------------------------------- PRNG (xoshiro256**, splitmix64 seeding)

type rng struct{ s [4]uint64 }

func splitmix(x *uint64) uint64 {
	*x += 0x9e3779b97f4a7c15
	z := *x
	z = (z ^ (z >> 30)) * 0xbf58476d1ce4e5b9
	z = (z ^ (z >> 27)) * 0x94d049bb133111eb
	return z ^ (z >> 31)
}

func newRng(seed uint64) *rng {
	r := &rng{}
	x := seed
	for i := range r.s {
		r.s[i] = splitmix(&x)
	}
	return r
}

func (r *rng) next() uint64 {
	s := &r.s
	res := bits.RotateLeft64(s[1]*5, 7) * 9
	t := s[1] << 17
	s[2] ^= s[0]
	s[3] ^= s[1]
	s[1] ^= s[2]
	s[0] ^= s[3]
	s[2] ^= t
	s[3] = bits.RotateLeft64(s[3], 45)
	return res
}

func (r *rng) intn(n int) int { return int(r.next() % uint64(n)) }

func mix64(a, b uint64) uint64 {
	x := a ^ (b + 0x9e3779b97f4a7c15 + (a << 6) + (a >> 2))
	return splitmix(&x)
}

func hashString(s string) uint64 {
	h := uint64(14695981039346656037)
	for i := 0; i < len(s); i++ {
		h ^= uint64(s[i])
		h *= 1099511628211
	}
	return h
}

// runSeed derives the seed of run i of a batch: one integer (VERIF_SEED) decides everything.
func runSeed(base uint64, prop string, i uint64) uint64 {
	return mix64(mix64(base, hashString(prop)), i)
}

// ---------------------------------------------------------------- Tape

// Tape is the only source of choices inside a run.  In generation mode each draw comes from
// the run's PRNG; in replay mode from a recorded (possibly shrunk) list, 0 once exhausted.
// Either way the values actually used are recorded in Out, which is what a replay file
// stores: executing Out again reproduces the run exactly.  Smaller values are "simpler" by
// convention of every generator (0 = fewest faults, shortest list, no context switch).
type Tape struct {
	r      *rng
	in     []uint64
	pos    int
	replay bool
	Out    []uint64
	fp     uint64
	MaxLen int
}

func NewTape(seed uint64) *Tape {
	return &Tape{r: newRng(seed), fp: 0x243f6a8885a308d3, MaxLen: 1 << 20}
}

func ReplayTape(vals []uint64) *Tape {
	return &Tape{in: vals, replay: true, fp: 0x243f6a8885a308d3, MaxLen: 1 << 20}
}

type tapeOverflow struct{}

// Draw returns a value in [0,n).
func (t *Tape) Draw(n uint64) uint64 {
	if n <= 1 {
		return 0
	}
	var v uint64
	if t.replay {
		if t.pos < len(t.in) {
			v = t.in[t.pos] % n
		}
		t.pos++
	} else {
		v = t.r.next() % n
	}
	if len(t.Out) >= t.MaxLen {
		panic(tapeOverflow{})
	}
	t.Out = append(t.Out, v)
	t.fp = mix64(t.fp, v)
	return v
}

func (t *Tape) Intn(n int) int { return int(t.Draw(uint64(n))) }

// Chance is true with probability about num/den; 0 on the tape means false.
func (t *Tape) Chance(num, den int) bool {
	return int(t.Draw(uint64(den))) >= den-num
}

// Bits returns a full 64-bit draw (0 on the tape = 0).
func (t *Tape) Bits() uint64 { return t.Draw(1<<63) | t.Draw(2)<<63 }

// Bulk returns a derived generator for bulk data (list elements, text bytes, junk) so that
// big payloads cost one tape entry.  Tape value 0 gives the all-simple stream.
func (t *Tape) Bulk() *bulk {
	v := t.Draw(1 << 32)
	if v == 0 {
		return &bulk{}
	}
	return &bulk{r: newRng(v)}
}

type bulk struct{ r *rng }

func (b *bulk) next() uint64 {
	if b.r == nil {
		return 0
	}
	return b.r.next()
}

func (b *bulk) intn(n int) int {
	if n <= 1 {
		return 0
	}
	return int(b.next() % uint64(n))
}

// Observe mixes an oracle observation into the run fingerprint (no draw is made).
func (t *Tape) Observe(v uint64) { t.fp = mix64(t.fp, v^0xa5a5a5a5a5a5a5a5) }

func (t *Tape) ObserveBytes(b []byte) {
	h := uint64(14695981039346656037)
	for _, c := range b {
		h ^= uint64(c)
		h *= 1099511628211
	}
	t.Observe(h ^ uint64(len(b))<<40)
}

func (t *Tape) Fingerprint() uint64 { return t.fp }
