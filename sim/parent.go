package main

import (
	"bufio"
	"bytes"
	"encoding/json"
	"flag"
	"fmt"
	"os"
	"os/exec"
	"path/filepath"
	"sort"
	"strconv"
	"strings"
	"sync"
	"time"
)

type abortEvent struct {
	Index  uint64
	Exit   int
	Stderr string
	Proc   procInfo
}

// procInfo says which worker process executed a run: its stripe (w of n) and the first index
// that process executed.  The runs of the stripe from ProcFrom up to a violating run are what
// the library had seen in that process before the violation.
type procInfo struct {
	W, N     int
	ProcFrom uint64
}

func (p procInfo) prelude(index uint64) []uint64 {
	var out []uint64
	if p.N <= 0 {
		return nil
	}
	for j := p.ProcFrom; j < index; j++ {
		if j%uint64(p.N) == uint64(p.W) {
			out = append(out, j)
		}
	}
	return out
}

type batchResult struct {
	mu         sync.Mutex
	stats      *Stats
	fps        map[uint64]struct{} // distinct fingerprints of non-trivial runs
	auxs       map[uint64]struct{} // distinct secondary hashes (interleavings)
	fpCapped   bool
	sites      map[int]struct{} // instrumented statements executed
	runs       uint64
	nontrivial uint64
	violations []RunResult
	violProc   []procInfo
	aborts     []abortEvent
	samples    []RunResult
	infra      []string
	capped     bool
	knownHits  map[string]uint64
}

// distinct fingerprints are tracked exactly up to this many; beyond it the count is a lower bound
const maxDistinctTracked = 6_000_000

func envSeed() uint64 {
	if s := os.Getenv("VERIF_SEED"); s != "" {
		if v, err := strconv.ParseUint(s, 10, 64); err == nil {
			return v
		}
		if v, err := strconv.ParseInt(s, 10, 64); err == nil {
			return uint64(v)
		}
	}
	return 20260929
}

func classifyDeath(stderr string) string {
	switch {
	case strings.Contains(stderr, "DATA RACE"):
		return "data-race"
	case strings.Contains(stderr, "out of memory") || strings.Contains(stderr, "cannot allocate memory"):
		return "oom-abort"
	case strings.Contains(stderr, "fatal error:"):
		return "fatal-error"
	}
	return ""
}

func tail(s string, n int) string {
	if len(s) <= n {
		return s
	}
	return "…" + s[len(s)-n:]
}

func head(s string, n int) string {
	if len(s) <= n {
		return s
	}
	return s[:n] + "…"
}

// runWorkers executes runs [0,total) striped over nworkers child processes.
func runWorkers(exe string, sc *scenario, tier string, seed, total uint64, nworkers int, samples uint64, known string, deadline int64) *batchResult {
	br := &batchResult{stats: newStats(), fps: map[uint64]struct{}{}, auxs: map[uint64]struct{}{}, sites: map[int]struct{}{}, knownHits: map[string]uint64{}}
	var wg sync.WaitGroup
	for w := 0; w < nworkers; w++ {
		wg.Add(1)
		go func(w int) {
			defer wg.Done()
			from := uint64(0)
			aborts := 0
			for {
				args := []string{"worker", "-prop", sc.Prop, "-tier", tier, "-seed", fmt.Sprint(seed), "-w", fmt.Sprint(w), "-n", fmt.Sprint(nworkers),
					"-from", fmt.Sprint(from), "-count", fmt.Sprint(total), "-samples", fmt.Sprint(samples), "-known", known, "-deadline", fmt.Sprint(deadline)}
				cmd := exec.Command(exe, args...)
				cmd.Env = workerEnv()
				var stderr bytes.Buffer
				cmd.Stderr = &stderr
				stdout, err := cmd.StdoutPipe()
				if err != nil {
					br.addInfra(fmt.Sprintf("worker %d: %v", w, err))
					return
				}
				if err := cmd.Start(); err != nil {
					br.addInfra(fmt.Sprintf("worker %d: %v", w, err))
					return
				}
				open := int64(-1)
				finished := false
				restart := int64(-1)
				nviol := 0
				rd := bufio.NewReaderSize(stdout, 1<<20)
				// wall-clock watchdog: a worker that prints nothing for 3 minutes is stuck in something
				// the simulator does not model (a bare channel, a real sleep): infrastructure, not a verdict
				var lastMu sync.Mutex
				last := time.Now()
				stalled := false
				stopWatch := make(chan struct{})
				go func() {
					tk := time.NewTicker(5 * time.Second)
					defer tk.Stop()
					for {
						select {
						case <-stopWatch:
							return
						case <-tk.C:
							lastMu.Lock()
							idle := time.Since(last)
							lastMu.Unlock()
							if idle > 180*time.Second {
								stalled = true
								cmd.Process.Kill()
								return
							}
						}
					}
				}()
				for {
					line, err := rd.ReadString('\n')
					lastMu.Lock()
					last = time.Now()
					lastMu.Unlock()
					if len(line) > 0 {
						line = strings.TrimRight(line, "\n")
						sp := strings.SplitN(line, " ", 3)
						switch sp[0] {
						case "B":
							v, _ := strconv.ParseUint(sp[1], 10, 64)
							open = int64(v)
						case "E":
							open = -1
							fp, _ := strconv.ParseUint(sp[2][:16], 16, 64)
							aux, _ := strconv.ParseUint(sp[2][17:33], 16, 64)
							br.mu.Lock()
							br.runs++
							if strings.HasSuffix(sp[2], " 1") {
								br.nontrivial++
								if len(br.fps) < maxDistinctTracked {
									br.fps[fp] = struct{}{}
								} else {
									br.fpCapped = true
								}
								if aux != 0 && len(br.auxs) < maxDistinctTracked {
									br.auxs[aux] = struct{}{}
								}
							}
							br.mu.Unlock()
						case "C":
							br.mu.Lock()
							for _, h := range strings.Split(line[2:], ",") {
								if h == "" {
									continue
								}
								if v, err := strconv.ParseInt(h, 16, 32); err == nil {
									br.sites[int(v)] = struct{}{}
								}
							}
							br.mu.Unlock()
						case "V":
							var r RunResult
							if json.Unmarshal([]byte(sp[2]), &r) == nil {
								br.mu.Lock()
								br.violations = append(br.violations, r)
								br.violProc = append(br.violProc, procInfo{W: w, N: nworkers, ProcFrom: from})
								br.mu.Unlock()
								nviol++
							}
						case "T":
							var r RunResult
							if json.Unmarshal([]byte(sp[2]), &r) == nil {
								br.mu.Lock()
								br.samples = append(br.samples, r)
								br.mu.Unlock()
							}
						case "S":
							var st Stats
							if json.Unmarshal([]byte(line[2:]), &st) == nil {
								br.mu.Lock()
								br.stats.merge(&st)
								br.mu.Unlock()
							}
						case "F":
							finished = true
						case "N":
							restart, _ = strconv.ParseInt(sp[1], 10, 64)
						case "D":
							br.mu.Lock()
							br.capped = true
							br.mu.Unlock()
						case "I":
							br.addInfra(fmt.Sprintf("worker %d run %s: %s", w, sp[1], sp[2]))
						}
					}
					if err != nil {
						break
					}
					if nviol >= 3 {
						// enough from this stripe; stop it (violations found are handled by the parent)
						cmd.Process.Kill()
						finished = true
						break
					}
				}
				werr := cmd.Wait()
				close(stopWatch)
				if stalled {
					br.addInfra(fmt.Sprintf("worker %d made no progress for 3 minutes in run %d (blocking that the simulator does not model); killed", w, open))
					return
				}
				if finished {
					return
				}
				if restart >= 0 && werr == nil {
					from = uint64(restart)
					br.mu.Lock()
					br.stats.add("worker_process_starts", 1)
					br.mu.Unlock()
					continue
				}
				code := -1
				if ee, ok := werr.(*exec.ExitError); ok {
					code = ee.ExitCode()
				} else if werr == nil {
					code = 0
				}
				if code == exitInfra && open < 0 {
					br.addInfra(fmt.Sprintf("worker %d exited with an infrastructure error: %s", w, tail(stderr.String(), 2000)))
					return
				}
				if open < 0 {
					br.addInfra(fmt.Sprintf("worker %d died (exit %d) outside any run: %s", w, code, tail(stderr.String(), 2000)))
					return
				}
				ae := abortEvent{Index: uint64(open), Exit: code, Stderr: stderr.String(), Proc: procInfo{W: w, N: nworkers, ProcFrom: from}}
				if !sc.AbortIsViolation && classifyDeath(ae.Stderr) == "oom-abort" {
					// an out-of-memory abort is C09/C10's subject, not this property's: count and go on
					br.mu.Lock()
					br.stats.add("probe.run-skipped:process-aborted-out-of-memory(reported-by-C09/C10)", 1)
					br.mu.Unlock()
					aborts++
					if aborts >= 400 {
						return
					}
					from = uint64(open) + 1
					continue
				}
				br.mu.Lock()
				br.aborts = append(br.aborts, ae)
				br.mu.Unlock()
				aborts++
				if aborts >= 8 {
					return
				}
				from = uint64(open) + 1
			}
		}(w)
	}
	wg.Wait()
	return br
}

func (br *batchResult) addInfra(s string) {
	br.mu.Lock()
	br.infra = append(br.infra, s)
	br.mu.Unlock()
}

func workerEnv() []string {
	env := os.Environ()
	out := env[:0:0]
	for _, e := range env {
		if strings.HasPrefix(e, "GORACE=") || strings.HasPrefix(e, "GOMAXPROCS=") || strings.HasPrefix(e, "GOGC=") || strings.HasPrefix(e, "GOMEMLIMIT=") {
			continue
		}
		out = append(out, e)
	}
	out = append(out, "GORACE=halt_on_error=1 exitcode=66 atexit_sleep_ms=0", "GOMAXPROCS=2")
	if v := os.Getenv("VERIF_GOMAXPROCS"); v != "" {
		out[len(out)-1] = "GOMAXPROCS=" + v
	}
	return out
}

// ---------------------------------------------------------------- one run in a fresh child

type childResult struct {
	Class    string // "" = no violation
	Res      *RunResult
	Fatal    string
	Stderr   string
	LiveLog  []string
	ExitCode int
	Infra    string
}

func execChild(exe string, args []string, timeout time.Duration) childResult {
	cmd := exec.Command(exe, args...)
	cmd.Env = workerEnv()
	var so, se bytes.Buffer
	cmd.Stdout = &so
	cmd.Stderr = &se
	if err := cmd.Start(); err != nil {
		return childResult{Infra: err.Error()}
	}
	done := make(chan error, 1)
	go func() { done <- cmd.Wait() }()
	var werr error
	select {
	case werr = <-done:
	case <-time.After(timeout):
		cmd.Process.Kill()
		<-done
		return childResult{Infra: "exec child exceeded its wall-clock watchdog (unmodelled blocking?)", Stderr: se.String()}
	}
	cr := childResult{Stderr: se.String()}
	if ee, ok := werr.(*exec.ExitError); ok {
		cr.ExitCode = ee.ExitCode()
	}
	began := false
	for _, line := range strings.Split(so.String(), "\n") {
		switch {
		case line == "B 0":
			began = true
		case strings.HasPrefix(line, "L "):
			cr.LiveLog = append(cr.LiveLog, line[2:])
		case strings.HasPrefix(line, "R "):
			var r RunResult
			if err := json.Unmarshal([]byte(line[2:]), &r); err == nil {
				cr.Res = &r
			}
		}
	}
	switch {
	case cr.ExitCode == exitOK && werr == nil:
		return cr
	case cr.ExitCode == exitExecViol && cr.Res != nil && cr.Res.Violation != nil:
		cr.Class = cr.Res.Violation.Class
		return cr
	case cr.ExitCode == exitInfra && !strings.Contains(cr.Stderr, "fatal error:"):
		cr.Infra = "exec child: " + tail(cr.Stderr, 1500)
		return cr
	}
	if !began {
		cr.Infra = "exec child died before the run began: " + tail(cr.Stderr, 1500)
		return cr
	}
	f := classifyDeath(cr.Stderr)
	if f == "" {
		cr.Infra = fmt.Sprintf("exec child died (exit %d) for an unrecognised reason: %s", cr.ExitCode, tail(cr.Stderr, 1500))
		return cr
	}
	cr.Fatal = f
	return cr
}

// ---------------------------------------------------------------- run command

type evidence struct {
	PropertyID  string         `json:"property_id"`
	Tier        string         `json:"tier"`
	Seed        uint64         `json:"seed"`
	Level       string         `json:"level"`
	Coverage    map[string]any `json:"coverage"`
	Assumptions []string       `json:"assumptions"`
	WallS       float64        `json:"wall_s"`
	Violations  int            `json:"violations"`
}

func cmdRun(args []string) int {
	fs := flag.NewFlagSet("run", flag.ExitOnError)
	prop := fs.String("prop", "", "")
	tier := fs.String("tier", "quick", "")
	seedF := fs.String("seed", "", "")
	workers := fs.Int("workers", 16, "")
	evPath := fs.String("evidence", "", "")
	replays := fs.String("replays", "", "")
	known := fs.String("known", "", "")
	runsF := fs.Uint64("runs", 0, "override number of runs")
	maxWall := fs.Int("maxwall", 0, "wall-clock cap for the batch in seconds (0 = tier default)")
	sitesF := fs.String("sites", "", "sites.json of the instrumented copy")
	fs.Parse(args)
	start := time.Now()
	sc := getScenario(*prop)
	seed := envSeed()
	if *seedF != "" {
		v, err := strconv.ParseUint(*seedF, 10, 64)
		if err != nil {
			infraFatal("bad -seed")
		}
		seed = v
	}
	total := sc.Quick
	wall := 150
	if *tier == "thorough" {
		total = sc.Thorough
		wall = 1500
	}
	if v := os.Getenv("VERIF_RUNS"); v != "" {
		if n, err := strconv.ParseUint(v, 10, 64); err == nil {
			total = n
		}
	}
	if *runsF != 0 {
		total = *runsF
	}
	if *maxWall != 0 {
		wall = *maxWall
	}
	loadSites(*sitesF)
	os.Setenv("SIMCHECK_NSITES", fmt.Sprint(len(sitesTable)))
	exe, _ := os.Executable()
	fmt.Printf("simcheck property=%s tier=%s VERIF_SEED=%d runs=%d workers=%d\n", *prop, *tier, seed, total, *workers)
	br := runWorkers(exe, sc, *tier, seed, total, *workers, 6, *known, time.Now().Unix()+int64(wall))
	if len(br.infra) > 0 {
		for _, s := range br.infra {
			fmt.Fprintln(os.Stderr, "INFRASTRUCTURE ERROR:", s)
		}
		return exitInfra
	}
	kn := loadKnown(*known, *prop)
	for _, sig := range sortedKeys(kn) {
		if n := br.stats.Counters["known."+sig]; n > 0 {
			fmt.Printf("KNOWN-FINDING: property=%s %s — %s (hit in %d runs)\n", *prop, sig, kn[sig], n)
		}
	}
	// ---- violations: confirm in a fresh process, minimise, write replay files
	nviol := 0
	exit := exitOK
	reported := map[string]bool{}
	type cand struct {
		index uint64
		class string
		proc  procInfo
	}
	var cands []cand
	for i, v := range br.violations {
		cands = append(cands, cand{v.Index, v.Violation.Class, br.violProc[i]})
	}
	sort.SliceStable(cands, func(i, j int) bool { return cands[i].index < cands[j].index })
	sort.Slice(br.aborts, func(i, j int) bool { return br.aborts[i].Index < br.aborts[j].Index })
	for _, a := range br.aborts {
		f := classifyDeath(a.Stderr)
		if f == "" {
			fmt.Fprintf(os.Stderr, "INFRASTRUCTURE ERROR: worker died in run %d (exit %d) for an unrecognised reason:\n%s\n", a.Index, a.Exit, tail(a.Stderr, 3000))
			return exitInfra
		}
		cands = append(cands, cand{a.Index, *prop + "/" + f, a.Proc})
	}
	norepro := 0
	for _, cd := range cands {
		if reported[cd.class] || len(reported) >= 3 {
			continue
		}
		path, code := handleViolation(exe, sc, *tier, seed, cd.index, cd.class, *replays, *known, cd.proc)
		if code == exitInfra {
			return exitInfra
		}
		if code == exitNoRepro {
			// try the next run that violated the same clause (at most a few)
			norepro++
			if norepro >= 6 {
				break
			}
			continue
		}
		reported[cd.class] = true
		if code == exitViolation {
			nviol++
			exit = exitViolation
			fmt.Printf("VIOLATION property=%s replay=%s\n", *prop, path)
		}
	}
	if norepro > 0 && nviol == 0 {
		fmt.Fprintf(os.Stderr, "INFRASTRUCTURE ERROR: %d violating runs did not reproduce in %d fresh executions each — nondeterminism that neither the simulator nor repetition controls\n", norepro, noReproTries)
		return exitInfra
	}
	// ---- evidence
	wallS := time.Since(start).Seconds()
	if *evPath != "" {
		writeEvidence(*evPath, sc, *tier, seed, br, wallS, nviol, *workers, total)
	}
	fmt.Printf("simcheck property=%s tier=%s: %d runs (%d non-trivial, %d distinct), %d violations, %.1fs\n", *prop, *tier, br.runs, br.nontrivial, len(br.fps), nviol, wallS)
	return exit
}

func writeEvidence(path string, sc *scenario, tier string, seed uint64, br *batchResult, wallS float64, nviol, workers int, planned uint64) {
	faults := map[string]uint64{}
	probes := map[string]uint64{}
	oracles := map[string]uint64{}
	typesReached := map[string]uint64{}
	other := map[string]uint64{}
	for k, v := range br.stats.Counters {
		switch {
		case strings.HasPrefix(k, "fault."):
			faults[k[6:]] = v
		case strings.HasPrefix(k, "probe."):
			probes[k[6:]] = v
		case strings.HasPrefix(k, "oracle."):
			oracles[k[7:]] = v
		case strings.HasPrefix(k, "type."), strings.HasPrefix(k, "frame."), strings.HasPrefix(k, "body."):
			typesReached[k] = v
		default:
			other[k] = v
		}
	}
	sort.Slice(br.samples, func(i, j int) bool { return br.samples[i].Index < br.samples[j].Index })
	var samples []any
	for _, s := range br.samples {
		tr := s.Trace
		if len(tr) > 40 {
			tr = append(append([]string{}, tr[:40]...), fmt.Sprintf("…(%d more lines)", len(s.Trace)-40))
		}
		for i := range tr {
			tr[i] = head(tr[i], 600)
		}
		samples = append(samples, map[string]any{"run_index": s.Index, "run_seed": runSeed(seed, sc.Prop, s.Index), "tape_len": len(s.Tape), "trace": tr})
		if len(samples) >= 4 {
			break
		}
	}
	if len(samples) == 0 {
		samples = append(samples, "no sample trace was emitted (batch too small)")
	}
	cov := map[string]any{
		"evaluations":                        br.runs,
		"distinct_nontrivial":                len(br.fps),
		"rule":                               sc.Rule,
		"samples":                            samples,
		"exhaustive":                         false,
		"runs_planned":                       planned,
		"wall_clock_capped":                  br.capped,
		"nontrivial_runs":                    br.nontrivial,
		"runs_per_hour":                      int64(float64(br.runs) / wallS * 3600),
		"seeds_per_hour":                     int64(float64(br.runs) / wallS * 3600),
		"simulated_time_ticks":               br.stats.Counters["ticks"],
		"simulated_time_note":                "the library has no clock; simulated time is the logical step clock: one tick per instrumented library statement executed",
		"faults_fired":                       faults,
		"oracle_evaluations":                 oracles,
		"probes":                             probes,
		"distinct_counting_capped":           br.fpCapped,
		"distinct_interleavings":             len(br.auxs),
		"library_statements_total":           max(len(sitesTable)-1, 0),
		"library_statements_reached":         len(br.sites),
		"library_statements_reached_by_file": sitesByFile(br.sites),
		"types_reached":                      len(typesReached),
		"types_reached_detail":               typesReached,
		"other_counters":                     other,
		"workers":                            workers,
		"components": map[string]any{
			"real":    []string{"codec/ (all of it)", "sse-bin/messages", "szse-bin/messages", "bjse-trade-bin/messages", "risk-bin/messages", "sample-bin/messages (all from /repo's working tree, instrumented copy)", "bytes.Buffer, encoding/binary, hash/crc32 as the library uses them"},
			"stubbed": []string{"sender/receiver application loops", "wire (segmenting, cutting, corrupting byte stream)", "buffer pool", "exchange frame verifier with independent checksum implementations", "scheduler and step clock (simrt)", "sync.Mutex/RWMutex/Once/Pool/WaitGroup replaced by scheduler-aware equivalents that take the real primitive inside"},
		},
	}
	ev := evidence{PropertyID: sc.Prop, Tier: tier, Seed: seed, Level: sc.Level, Coverage: cov, Assumptions: sc.Assumptions, WallS: wallS, Violations: nviol}
	b, _ := json.MarshalIndent(ev, "", " ")
	os.MkdirAll(filepath.Dir(path), 0o755)
	if err := os.WriteFile(path, append(b, '\n'), 0o644); err != nil {
		infraFatal("evidence: %v", err)
	}
}

func sitesByFile(hit map[int]struct{}) map[string]string {
	tot := map[string]int{}
	got := map[string]int{}
	for _, s := range sitesTable {
		if s.Line == 0 {
			continue
		}
		d := filepath.Dir(s.File)
		tot[d]++
		if _, ok := hit[s.ID]; ok {
			got[d]++
		}
	}
	out := map[string]string{}
	for d, n := range tot {
		out[d] = fmt.Sprintf("%d/%d", got[d], n)
	}
	return out
}
