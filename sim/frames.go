package main

import (
	"fmt"
	"reflect"
)

// The "exchange verifier": what a receiver that follows the exchange's framing rules knows
// about the five frame types, and nothing else.  Geometry is pinned here by hand from the
// protocol header definitions (SSE bin v0.57, SZSE bin v1.29, risk v0.1.0, sample, BSE v0.9);
// the two checksum algorithms are implemented below bit by bit — nothing is shared with
// codec/checksum.go or hash/crc32.

type FrameGeom struct {
	Type       string
	HeaderLen  int
	LenOff     int // offset of the body-length field inside the header
	LE         bool
	TrailerLen int
	Algo       string // "sum8" | "crc32" | "" (no self-computed checksum)
	Computed   bool   // length is self-computed by the encoder
	LenField   string
	SumField   string
	BodyField  string
	TypeField  string
}

var frameGeoms = map[string]*FrameGeom{
	"sse.SseBinary":     {Type: "sse.SseBinary", HeaderLen: 16, LenOff: 12, TrailerLen: 4, Algo: "sum8", Computed: true, LenField: "MsgBodyLen", SumField: "Checksum", BodyField: "Body", TypeField: "MsgType"},
	"szse.SzseBinary":   {Type: "szse.SzseBinary", HeaderLen: 8, LenOff: 4, TrailerLen: 4, Algo: "sum8", Computed: true, LenField: "BodyLength", SumField: "Checksum", BodyField: "Body", TypeField: "MsgType"},
	"risk.RcBinary":     {Type: "risk.RcBinary", HeaderLen: 12, LenOff: 8, TrailerLen: 0, Algo: "", Computed: true, LenField: "MsgBodyLen", BodyField: "Body", TypeField: "MsgType"},
	"sample.RootPacket": {Type: "sample.RootPacket", HeaderLen: 6, LenOff: 2, LE: true, TrailerLen: 4, Algo: "crc32", Computed: true, LenField: "PayloadLen", SumField: "Checksum", BodyField: "Payload", TypeField: "MsgType"},
	"bjse.BjseBinary":   {Type: "bjse.BjseBinary", HeaderLen: 8, LenOff: 4, LE: true, TrailerLen: 4, Algo: "", Computed: false, LenField: "BodyLength", SumField: "Checksum", BodyField: "Body", TypeField: "MsgType"},
}

var computedFrames = []string{"sse.SseBinary", "szse.SzseBinary", "risk.RcBinary", "sample.RootPacket"}
var checksummedFrames = []string{"sse.SseBinary", "szse.SzseBinary", "sample.RootPacket"}

func get32(b []byte, le bool) uint32 {
	if le {
		return uint32(b[0]) | uint32(b[1])<<8 | uint32(b[2])<<16 | uint32(b[3])<<24
	}
	return uint32(b[3]) | uint32(b[2])<<8 | uint32(b[1])<<16 | uint32(b[0])<<24
}

// refSum8 is "sum of all bytes modulo 256".
func refSum8(b []byte) uint32 {
	var s uint64
	for _, c := range b {
		s += uint64(c)
	}
	return uint32(s % 256)
}

// refCRC32 is CRC-32/IEEE (reflected, poly 0xEDB88320, init/xorout 0xFFFFFFFF).  The table
// is built here from the bitwise definition; nothing is shared with hash/crc32.
var refCRCTable = func() (t [256]uint32) {
	for n := 0; n < 256; n++ {
		crc := uint32(n)
		for i := 0; i < 8; i++ {
			if crc&1 != 0 {
				crc = (crc >> 1) ^ 0xEDB88320
			} else {
				crc >>= 1
			}
		}
		t[n] = crc
	}
	return
}()

func refCRC32(b []byte) uint32 {
	crc := uint32(0xFFFFFFFF)
	for _, c := range b {
		crc = refCRCTable[byte(crc)^c] ^ (crc >> 8)
	}
	return ^crc
}

func (g *FrameGeom) refChecksum(b []byte) uint32 {
	switch g.Algo {
	case "sum8":
		return refSum8(b)
	case "crc32":
		return refCRC32(b)
	}
	return 0
}

// FrameVerdict is what the exchange verifier says about one frame's bytes.
type FrameVerdict struct {
	OK         bool
	Why        string
	WireLen    uint32
	WantLen    uint32
	WireSum    uint32
	WantSum    uint32
	LenOK      bool
	SumOK      bool
	ShortFrame bool
}

// verifyFrame checks the bytes `a` appended by one Encode call of frame type g.
func (g *FrameGeom) verifyFrame(a []byte) FrameVerdict {
	v := FrameVerdict{}
	if len(a) < g.HeaderLen+g.TrailerLen {
		v.ShortFrame = true
		v.Why = fmt.Sprintf("frame of %d bytes is shorter than header+trailer (%d)", len(a), g.HeaderLen+g.TrailerLen)
		return v
	}
	v.WireLen = get32(a[g.LenOff:], g.LE)
	v.WantLen = uint32(len(a) - g.HeaderLen - g.TrailerLen)
	v.LenOK = v.WireLen == v.WantLen
	v.SumOK = true
	if g.Algo != "" {
		v.WireSum = get32(a[len(a)-4:], g.LE)
		v.WantSum = g.refChecksum(a[:len(a)-4])
		v.SumOK = v.WireSum == v.WantSum
	}
	v.OK = v.LenOK && v.SumOK
	return v
}

// frame object accessors (by pinned field name)
func frameField(v any, name string) reflect.Value {
	return fieldOf(reflect.ValueOf(v).Elem(), name)
}
