#!/usr/bin/env python3
"""One-off extractor: reads the Encode bodies of the pristine tree (commit 5a2d38a) and
writes /verif/schema/pinned_schema.json.  NOT run by any check: the committed JSON is the
pinned schema (generator domain + fault aiming only, see DESIGN.md section 2)."""
import re, sys, json, glob, os

REPO = sys.argv[1] if len(sys.argv) > 1 else "/repo"
PKGS = [("sse", "sse-bin/messages", "BE"), ("szse", "szse-bin/messages", "BE"),
        ("bjse", "bjse-trade-bin/messages", "LE"), ("risk", "risk-bin/messages", "BE"),
        ("sample", "sample-bin/messages", "LE")]
PW = {"uint8": 1, "uint16": 2, "uint32": 4, "uint64": 8}

def parse_struct(src, name):
    m = re.search(r"^type %s struct \{\n(.*?)^\}" % re.escape(name), src, re.S | re.M)
    fields = {}
    order = []
    for line in m.group(1).splitlines():
        line = line.strip()
        if not line or line.startswith("//"):
            continue
        parts = line.split()
        fields[parts[0]] = parts[1]
        order.append(parts[0])
    return fields, order

def main():
    out = {"pinned_commit": "5a2d38a", "types": {}, "tables": {}, "frames": {}}
    for pkg, d, order in PKGS:
        for f in sorted(glob.glob(os.path.join(REPO, d, "*.go"))):
            if f.endswith("_test.go"):
                continue
            src = open(f).read()
            # discriminator tables
            for m in re.finditer(r"^func (Registry(\w+)Factory)\((\w+) (\w+), factory", src, re.M):
                tname = m.group(2)
                keys = []
                for k in re.finditer(r"^\t%s\((\"[^\"]*\"|\d+), func\(\) codec\.BinaryCodec \{ return &(\w+)\{\} \}\)" % m.group(1), src, re.M):
                    kv = k.group(1)
                    keys.append({"key": json.loads(kv) if kv.startswith('"') else int(kv), "type": pkg + "." + k.group(2)})
                ctor = re.search(r"^func (New\w+MessageBy\w+)\(key", src, re.M).group(1)
                out["tables"][pkg + "." + tname] = {"keytype": m.group(4), "register": m.group(1), "lookup": ctor, "keys": keys, "file": os.path.relpath(f, REPO)}
            for m in re.finditer(r"^func \((\w) \*(\w+)\) Encode\(buf \*bytes\.Buffer\)( error)? \{\n(.*?)^\}", src, re.S | re.M):
                recv, tname, body = m.group(1), m.group(2), m.group(4)
                gofields, goorder = parse_struct(src, tname)
                fields = []
                pending_len = None
                lines = body.splitlines()
                i = 0
                for line in lines:
                    s = line.strip()
                    fm = None
                    def fld(name, **kw):
                        d = {"name": name, "gotype": gofields.get(name)}
                        d.update(kw)
                        fields.append(d)
                    if (fm := re.search(r"codec\.WriteBasicType(LE)?\(buf, %s\.(\w+)\)" % recv, s)):
                        fld(fm.group(2), kind="num", le=bool(fm.group(1)))
                    elif (fm := re.search(r"binary\.Write\(buf, binary\.(Big|Little)Endian, %s\.(\w+)\)" % recv, s)):
                        fld(fm.group(2), kind="num", le=fm.group(1) == "Little")
                    elif (fm := re.search(r"codec\.WriteBasicType(LE)?\(buf, uint32\(0\)\)", s)):
                        pending_len = {"le": bool(fm.group(1))}
                    elif (fm := re.search(r"%s\.(\w+) = uint32\((\w+)End - (\w+)Start\)" % recv, s)):
                        # the computed length field sits where the placeholder was written
                        fld(fm.group(1), kind="num", le=pending_len["le"], computed="length")
                        # move it before the body field (which was appended after placeholder)
                        lf = fields.pop()
                        # find body field index (last 'body' kind)
                        idx = max(j for j, x in enumerate(fields) if x["kind"] == "body")
                        fields.insert(idx, lf)
                    elif (fm := re.search(r"codec\.WriteFixedString\(buf, %s\.(\w+), (\d+)\)" % recv, s)):
                        fld(fm.group(1), kind="fixstr", width=int(fm.group(2)), pad=0x20, padleft=False)
                    elif (fm := re.search(r"codec\.WriteFixedStringWithPadding\(buf, %s\.(\w+), (\d+), '(.*?)', (true|false)\)" % recv, s)):
                        pc = fm.group(3)
                        pad = 0 if pc == "\\x00" else ord(pc)
                        fld(fm.group(1), kind="fixstr", width=int(fm.group(2)), pad=pad, padleft=fm.group(4) == "true")
                    elif (fm := re.search(r"codec\.WriteString(LE)?\[(\w+)\]\(buf, %s\.(\w+)\)" % recv, s)):
                        fld(fm.group(3), kind="str", prefix=PW[fm.group(2)], le=bool(fm.group(1)))
                    elif (fm := re.search(r"codec\.WriteBasicTypeList(LE)?\[(\w+)\]\(buf, %s\.(\w+)\)" % recv, s)):
                        fld(fm.group(3), kind="numlist", prefix=PW[fm.group(2)], le=bool(fm.group(1)))
                    elif (fm := re.search(r"codec\.WriteObjectList(LE)?\[(\w+)\]\(buf, %s\.(\w+)\)" % recv, s)):
                        fld(fm.group(3), kind="objlist", prefix=PW[fm.group(2)], le=bool(fm.group(1)))
                    elif (fm := re.search(r"codec\.WriteFixedStringList(LE)?\[(\w+)\]\(buf, %s\.(\w+), (\d+)\)" % recv, s)):
                        fld(fm.group(3), kind="fixstrlist", prefix=PW[fm.group(2)], le=bool(fm.group(1)), width=int(fm.group(4)), pad=0x20, padleft=False)
                    elif (fm := re.search(r"codec\.WriteFixedStringListWithPadding(LE)?\[(\w+)\]\(buf, %s\.(\w+), (\d+), '(.*?)', (true|false)\)" % recv, s)):
                        pc = fm.group(5)
                        pad = 0 if pc == "\\x00" else ord(pc)
                        fld(fm.group(3), kind="fixstrlist", prefix=PW[fm.group(2)], le=bool(fm.group(1)), width=int(fm.group(4)), pad=pad, padleft=fm.group(6) == "true")
                    elif (fm := re.search(r"codec\.WriteStringList(LE)?\[(\w+), (\w+)\]\(buf, %s\.(\w+)\)" % recv, s)):
                        fld(fm.group(4), kind="strlist", prefix=PW[fm.group(2)], eprefix=PW[fm.group(3)], le=bool(fm.group(1)))
                    elif (fm := re.search(r"%s\.(\w+)\.Encode\(buf\)" % recv, s)):
                        n = fm.group(1)
                        gt = gofields[n]
                        if gt == "codec.BinaryCodec":
                            fld(n, kind="body")
                        else:
                            fld(n, kind="obj")
                    elif "codec.Write" in s or "binary.Write" in s:
                        raise SystemExit("unparsed encode line in %s %s: %s" % (f, tname, s))
                # checksum field: computed if body mentions codec.Get
                cm = re.search(r'codec\.Get\("(\w+)"\)', body)
                if cm:
                    for x in fields:
                        if x["name"] == "Checksum":
                            x["computed"] = "checksum"
                            x["algo"] = cm.group(1)
                # discriminator for body
                disc = None
                dm = re.search(r"New\w+MessageBy\w+\(%s\.(\w+)\)" % recv, src)
                if dm and any(x["kind"] == "body" for x in fields):
                    disc = dm.group(1)
                    tb = re.search(r"^func Registry(\w+)Factory", src, re.M).group(1)
                out["types"][pkg + "." + tname] = {"pkg": pkg, "order": order, "file": os.path.relpath(f, REPO), "fields": fields}
                if disc:
                    out["types"][pkg + "." + tname]["discriminator"] = disc
                    out["types"][pkg + "." + tname]["table"] = pkg + "." + tb
                # sanity: every Go struct field appears exactly once
                names = [x["name"] for x in fields]
                if sorted(names) != sorted(goorder):
                    raise SystemExit("field mismatch %s: %s vs %s" % (tname, names, goorder))
                if names != goorder:
                    raise SystemExit("field order mismatch %s: %s vs %s" % (tname, names, goorder))
    json.dump(out, open("/verif/schema/pinned_schema.json", "w"), indent=1, sort_keys=False)
    print(len(out["types"]), "types", len(out["tables"]), "tables", sum(len(t["keys"]) for t in out["tables"].values()), "keys")

main()
