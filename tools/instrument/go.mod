module instrument

go 1.23
