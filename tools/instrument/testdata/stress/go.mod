module github.com/xinchentechnote/fin-proto-go

go 1.24.2
