package pkg

import (
	"os"
	"testing"
)

func TestStress(t *testing.T) {
	if got := sum(1, 2, 3); got != 6 {
		t.Fatal("sum", got)
	}
	if classify(nil) != "nil" || classify(3) != "int3" || classify("") != "empty" || classify("x") != "string" || classify(1.5) != "other" {
		t.Fatal("classify")
	}
	if grade(-1) != "neg" || grade(0) != "zerosmall" || grade(4) != "small!" || grade(30) != "big" {
		t.Fatal("grade", grade(-1), grade(0), grade(4), grade(30))
	}
	if got := loops(6); got != 41 {
		t.Fatal("loops", got)
	}
	// with the simulator's map iteration (seed 0) keys come sorted; the Go runtime's order is random
	if ks := mapOrder(); len(ks) != 3 && os.Getenv("STRESS_INSTRUMENTED") != "" {
		t.Fatal("mapOrder", ks)
	}
	if got := channels(); got != 11 {
		t.Fatal("channels", got)
	}
	if got := closures(); got != 112 {
		t.Fatal("closures", got)
	}
}
