// Package pkg exercises the statement forms the instrumenter must survive.  It is not part of
// any check: `./check setup` instruments a copy of it, builds it and runs its test.
package pkg

import (
	"errors"
	"fmt"
	"sort"
	"sync"
)

type shape interface{ area() int }
type sq struct{ s int }
type rc struct{ w, h int }

func (s sq) area() int { return s.s * s.s }
func (r rc) area() int { return r.w * r.h }

var mu sync.Mutex
var rw sync.RWMutex
var once sync.Once
var table = map[string]int{"a": 1, "b": 2, "c": 3}

type number interface{ ~int | ~int64 }

func sum[T number](xs ...T) (t T) {
	for _, x := range xs {
		t += x
	}
	return
}

func classify(v any) string {
	switch x := v.(type) {
	case nil:
		return "nil"
	case int, int64:
		return fmt.Sprint("int", x)
	case string:
		if x == "" {
			return "empty"
		}
		return "string"
	default:
		return "other"
	}
}

func grade(n int) (g string) {
	switch {
	case n < 0:
		g = "neg"
	case n == 0:
		g = "zero"
		fallthrough
	case n < 10:
		g += "small"
	default:
		g = "big"
	}
	switch k := n % 3; k {
	case 0:
	case 1, 2:
		g += "!"
	}
	return g
}

func loops(n int) int {
	total := 0
outer:
	for i := 0; i < n; i++ {
		for j := 0; ; j++ {
			if j > i {
				continue outer
			}
			if i*j > 50 {
				break outer
			}
			total += j
		}
	}
	k := 0
loop:
	if k < 3 {
		k++
		goto loop
	}
	for range 3 {
		total++
	}
	for {
		break
	}
	for total > 1000 {
	}
	return total + k
}

func mapOrder() []string {
	var ks []string
	for k := range table {
		ks = append(ks, k)
	}
	for k, v := range table {
		_ = v
		if k == "zzz" {
			break
		}
	}
	for range table {
	}
	sorted := append([]string(nil), ks...)
	sort.Strings(sorted)
	for i := range ks {
		if ks[i] != sorted[i] {
			return nil // under the simulator (map seed 0) keys come sorted
		}
	}
	return ks
}

func locked(f func() int) (r int, err error) {
	mu.Lock()
	defer mu.Unlock()
	defer func() {
		if p := recover(); p != nil {
			err = fmt.Errorf("recovered: %v", p)
		}
	}()
	rw.RLock()
	r = f()
	rw.RUnlock()
	once.Do(func() { r++ })
	return r, nil
}

func channels() int {
	ch := make(chan int, 2)
	done := make(chan struct{})
	var wg sync.WaitGroup
	wg.Add(1)
	go func() {
		defer wg.Done()
		for v := range ch {
			_ = v
		}
		close(done)
	}()
	ch <- 1
	ch <- 2
	close(ch)
	n := 0
	select {
	case <-done:
		n = 1
	}
	select {
	case v, ok := <-ch:
		if !ok {
			n += 10
		}
		_ = v
	default:
		n += 100
	}
	wg.Wait()
	return n
}

func closures() int {
	add := func(a, b int) int { return a + b }
	var fs []func() int
	for i := 0; i < 3; i++ {
		fs = append(fs, func() int { return add(i, 1) })
	}
	t := 0
	for _, f := range fs {
		t += f()
	}
	if v, err := locked(func() int { panic("x") }); err != nil {
		t += 100
	} else if v > 0 {
		t += 1000
	} else {
		t += 10000
	}
	var e error = errors.New("e")
	if e != nil { t++ }; t++
	var s shape = sq{2}
	if r, ok := s.(rc); ok {
		t += r.area()
	}
	return t + s.area()
}
