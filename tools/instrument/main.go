// instrument rewrites a scratch copy of fin-proto-go for deterministic simulation.
//
//	instrument <scratch-repo-dir> <simrt-src-dir> <sites.json>
//
// For every non-test .go file under codec/ and */messages/ (and any other non-test package
// directory of the module except simrt itself) it
//   - inserts `simrt.Yield(N);` in front of every statement of every block, case clause and
//     comm clause, and into every empty function/loop body  (text insertion at the
//     statement's own offset, so line numbers are unchanged);
//   - rewrites the type expressions sync.Mutex, sync.RWMutex, sync.Once, sync.Pool and
//     sync.WaitGroup to their simrt equivalents;
//   - rewrites `go f(x)` to `simrt.Go(func() { f(x) })`;
//   - adds the simrt import and a blank use.
//
// Only the standard library is used.
package main

import (
	"encoding/json"
	"fmt"
	"go/ast"
	"go/parser"
	"go/token"
	"io/fs"
	"os"
	"path/filepath"
	"sort"
	"strings"
)

const simrtImport = "github.com/xinchentechnote/fin-proto-go/simrt"

type edit struct {
	off  int
	seq  int
	del  int // bytes to delete at off
	text string
}

type site struct {
	ID   int    `json:"id"`
	File string `json:"file"`
	Line int    `json:"line"`
	Func string `json:"func"`
}

var sites []site

var simTypes = map[string]bool{"Mutex": true, "RWMutex": true, "Once": true, "Pool": true, "WaitGroup": true}

func main() {
	if len(os.Args) != 4 {
		fmt.Fprintln(os.Stderr, "usage: instrument <repo-copy> <simrt-src> <sites.json>")
		os.Exit(2)
	}
	root, simsrc, sitesOut := os.Args[1], os.Args[2], os.Args[3]
	sites = append(sites, site{ID: 0, File: "(sync primitive)", Line: 0})
	var files []string
	err := filepath.WalkDir(root, func(p string, d fs.DirEntry, err error) error {
		if err != nil {
			return err
		}
		if d.IsDir() {
			n := d.Name()
			if n == ".git" || n == "simrt" || n == "submodules" || n == "vendor" || n == "testdata" {
				return filepath.SkipDir
			}
			return nil
		}
		if strings.HasSuffix(p, ".go") && !strings.HasSuffix(p, "_test.go") {
			files = append(files, p)
		}
		return nil
	})
	if err != nil {
		fatal(err)
	}
	sort.Strings(files)
	for _, f := range files {
		if err := instrumentFile(root, f); err != nil {
			fatal(fmt.Errorf("%s: %w", f, err))
		}
	}
	// copy simrt
	dst := filepath.Join(root, "simrt")
	if err := os.MkdirAll(dst, 0o755); err != nil {
		fatal(err)
	}
	ents, err := os.ReadDir(simsrc)
	if err != nil {
		fatal(err)
	}
	for _, e := range ents {
		if e.IsDir() || !strings.HasSuffix(e.Name(), ".go") {
			continue
		}
		b, err := os.ReadFile(filepath.Join(simsrc, e.Name()))
		if err != nil {
			fatal(err)
		}
		if err := os.WriteFile(filepath.Join(dst, e.Name()), b, 0o644); err != nil {
			fatal(err)
		}
	}
	b, _ := json.Marshal(sites)
	if err := os.WriteFile(sitesOut, b, 0o644); err != nil {
		fatal(err)
	}
	fmt.Printf("instrumented %d files, %d yield sites\n", len(files), len(sites)-1)
}

func fatal(err error) {
	fmt.Fprintln(os.Stderr, "instrument:", err)
	os.Exit(2)
}

func instrumentFile(root, path string) error {
	src, err := os.ReadFile(path)
	if err != nil {
		return err
	}
	fset := token.NewFileSet()
	f, err := parser.ParseFile(fset, path, src, parser.ParseComments)
	if err != nil {
		return err
	}
	rel, _ := filepath.Rel(root, path)
	tf := fset.File(f.Pos())
	off := func(p token.Pos) int { return tf.Offset(p) }
	var edits []edit
	seq := 0
	add := func(o, del int, text string) {
		edits = append(edits, edit{off: o, seq: seq, del: del, text: text})
		seq++
	}
	// name of the local identifier bound to package "sync"
	syncName := ""
	for _, im := range f.Imports {
		if im.Path.Value == `"sync"` {
			syncName = "sync"
			if im.Name != nil {
				syncName = im.Name.Name
			}
		}
	}
	curFunc := ""
	newSite := func(p token.Pos) int {
		id := len(sites)
		sites = append(sites, site{ID: id, File: rel, Line: fset.Position(p).Line, Func: curFunc})
		return id
	}
	yieldBefore := func(list []ast.Stmt) {
		for _, st := range list {
			id := newSite(st.Pos())
			add(off(st.Pos()), 0, fmt.Sprintf("simrt.Yield(%d); ", id))
		}
	}
	var walk func(n ast.Node) bool
	walk = func(n ast.Node) bool {
		switch x := n.(type) {
		case *ast.FuncDecl:
			curFunc = x.Name.Name
			if x.Recv != nil && len(x.Recv.List) == 1 {
				curFunc = typeString(x.Recv.List[0].Type) + "." + x.Name.Name
			}
		case *ast.BlockStmt:
			if len(x.List) == 0 {
				id := newSite(x.Lbrace)
				add(off(x.Lbrace)+1, 0, fmt.Sprintf(" simrt.Yield(%d) ", id))
			} else {
				yieldBefore(x.List)
			}
		case *ast.CaseClause:
			yieldBefore(x.Body)
		case *ast.CommClause:
			yieldBefore(x.Body)
		case *ast.GoStmt:
			// go f(x)  ->  simrt.Go(func() { f(x) })
			add(off(x.Go), 2, "simrt.Go(func() {")
			add(off(x.End()), 0, " })")
		case *ast.SelectorExpr:
			if id, ok := x.X.(*ast.Ident); ok && syncName != "" && id.Name == syncName && id.Obj == nil && simTypes[x.Sel.Name] {
				add(off(id.Pos()), len(id.Name), "simrt")
			}
		}
		return true
	}
	ast.Inspect(f, walk)
	// import + blank uses, on the package clause line so that line numbers are preserved
	add(off(f.Name.End()), 0, fmt.Sprintf("; import simrt %q", simrtImport))
	tail := "\nvar _ = simrt.Yield\n"
	if syncName != "" {
		tail += fmt.Sprintf("var _ %s.Locker\n", syncName)
	}
	add(len(src), 0, tail)

	sort.SliceStable(edits, func(i, j int) bool {
		if edits[i].off != edits[j].off {
			return edits[i].off < edits[j].off
		}
		return edits[i].seq < edits[j].seq
	})
	var out []byte
	pos := 0
	for _, e := range edits {
		if e.off < pos {
			return fmt.Errorf("overlapping edits at offset %d", e.off)
		}
		out = append(out, src[pos:e.off]...)
		out = append(out, e.text...)
		pos = e.off + e.del
	}
	out = append(out, src[pos:]...)
	// must still parse
	if _, err := parser.ParseFile(token.NewFileSet(), path, out, 0); err != nil {
		return fmt.Errorf("instrumented file does not parse: %w", err)
	}
	return os.WriteFile(path, out, 0o644)
}

func typeString(e ast.Expr) string {
	switch x := e.(type) {
	case *ast.StarExpr:
		return typeString(x.X)
	case *ast.Ident:
		return x.Name
	case *ast.IndexExpr:
		return typeString(x.X)
	case *ast.IndexListExpr:
		return typeString(x.X)
	}
	return "?"
}
