// instrument rewrites a scratch copy of fin-proto-go for deterministic simulation.
//
//	instrument <scratch-repo-dir> <simrt-src-dir> <sites.json>
//
// For every non-test .go file under codec/ and */messages/ (and any other non-test package
// directory of the module except simrt itself) it
//   - inserts `simrt.Yield(N);` in front of every statement of every block, case clause and
//     comm clause, and into every empty function/loop body  (text insertion at the
//     statement's own offset, so line numbers are unchanged);
//   - rewrites the type expressions sync.Mutex, sync.RWMutex, sync.Once, sync.Pool and
//     sync.WaitGroup to their simrt equivalents;
//   - rewrites `go f(x)` to `simrt.Go(func() { f(x) })`;
//   - rewrites `range m` where m has map type (decided with go/types) to
//     `range simrt.MapRange(m)`, so that map iteration order is owned by the simulator
//     instead of the Go runtime's unseedable randomisation;
//   - adds the simrt import and a blank use.
//
// Only the standard library is used.
package main

import (
	"encoding/json"
	"fmt"
	"go/ast"
	"go/importer"
	"go/parser"
	"go/token"
	"go/types"
	"io/fs"
	"os"
	"path/filepath"
	"sort"
	"strings"
)

const simrtImport = "github.com/xinchentechnote/fin-proto-go/simrt"

type edit struct {
	off  int
	seq  int
	del  int // bytes to delete at off
	text string
}

type site struct {
	ID   int    `json:"id"`
	File string `json:"file"`
	Line int    `json:"line"`
	Func string `json:"func"`
}

var sites []site

var simTypes = map[string]bool{"Mutex": true, "RWMutex": true, "Once": true, "Pool": true, "WaitGroup": true}

func main() {
	if len(os.Args) != 4 {
		fmt.Fprintln(os.Stderr, "usage: instrument <repo-copy> <simrt-src> <sites.json>")
		os.Exit(2)
	}
	root, simsrc, sitesOut := os.Args[1], os.Args[2], os.Args[3]
	sites = append(sites, site{ID: 0, File: "(sync primitive)", Line: 0})
	var files []string
	err := filepath.WalkDir(root, func(p string, d fs.DirEntry, err error) error {
		if err != nil {
			return err
		}
		if d.IsDir() {
			n := d.Name()
			if n == ".git" || n == "simrt" || n == "submodules" || n == "vendor" || n == "testdata" {
				return filepath.SkipDir
			}
			return nil
		}
		if strings.HasSuffix(p, ".go") && !strings.HasSuffix(p, "_test.go") {
			files = append(files, p)
		}
		return nil
	})
	if err != nil {
		fatal(err)
	}
	sort.Strings(files)
	findMapRanges(root, files)
	for _, f := range files {
		if err := instrumentFile(root, f); err != nil {
			fatal(fmt.Errorf("%s: %w", f, err))
		}
	}
	// copy simrt
	dst := filepath.Join(root, "simrt")
	if err := os.MkdirAll(dst, 0o755); err != nil {
		fatal(err)
	}
	ents, err := os.ReadDir(simsrc)
	if err != nil {
		fatal(err)
	}
	for _, e := range ents {
		if e.IsDir() || !strings.HasSuffix(e.Name(), ".go") {
			continue
		}
		b, err := os.ReadFile(filepath.Join(simsrc, e.Name()))
		if err != nil {
			fatal(err)
		}
		if err := os.WriteFile(filepath.Join(dst, e.Name()), b, 0o644); err != nil {
			fatal(err)
		}
	}
	b, _ := json.Marshal(sites)
	if err := os.WriteFile(sitesOut, b, 0o644); err != nil {
		fatal(err)
	}
	fmt.Printf("instrumented %d files, %d yield sites, %d map ranges put under the simulator (%s)\n", len(files), len(sites)-1, nMapRanges, typeCheckNote)
}

func fatal(err error) {
	fmt.Fprintln(os.Stderr, "instrument:", err)
	os.Exit(2)
}

func instrumentFile(root, path string) error {
	src, err := os.ReadFile(path)
	if err != nil {
		return err
	}
	fset := token.NewFileSet()
	f, err := parser.ParseFile(fset, path, src, parser.ParseComments)
	if err != nil {
		return err
	}
	rel, _ := filepath.Rel(root, path)
	tf := fset.File(f.Pos())
	off := func(p token.Pos) int { return tf.Offset(p) }
	var edits []edit
	seq := 0
	add := func(o, del int, text string) {
		edits = append(edits, edit{off: o, seq: seq, del: del, text: text})
		seq++
	}
	// name of the local identifier bound to package "sync"
	syncName := ""
	for _, im := range f.Imports {
		if im.Path.Value == `"sync"` {
			syncName = "sync"
			if im.Name != nil {
				syncName = im.Name.Name
			}
		}
	}
	curFunc := ""
	newSite := func(p token.Pos) int {
		id := len(sites)
		sites = append(sites, site{ID: id, File: rel, Line: fset.Position(p).Line, Func: curFunc})
		return id
	}
	yieldBefore := func(list []ast.Stmt) {
		for _, st := range list {
			id := newSite(st.Pos())
			add(off(st.Pos()), 0, fmt.Sprintf("simrt.Yield(%d); ", id))
		}
	}
	skipBlock := map[*ast.BlockStmt]bool{}
	var walk func(n ast.Node) bool
	walk = func(n ast.Node) bool {
		switch x := n.(type) {
		case *ast.FuncDecl:
			curFunc = x.Name.Name
			if x.Recv != nil && len(x.Recv.List) == 1 {
				curFunc = typeString(x.Recv.List[0].Type) + "." + x.Name.Name
			}
		case *ast.SwitchStmt:
			skipBlock[x.Body] = true // its list holds case clauses, not statements
		case *ast.TypeSwitchStmt:
			skipBlock[x.Body] = true
		case *ast.SelectStmt:
			skipBlock[x.Body] = true
		case *ast.BlockStmt:
			if skipBlock[x] {
				break
			}
			if len(x.List) == 0 {
				id := newSite(x.Lbrace)
				add(off(x.Lbrace)+1, 0, fmt.Sprintf(" simrt.Yield(%d) ", id))
			} else {
				yieldBefore(x.List)
			}
		case *ast.CaseClause:
			yieldBefore(x.Body)
		case *ast.CommClause:
			yieldBefore(x.Body)
		case *ast.GoStmt:
			// go f(x)  ->  simrt.Go(func() { f(x) })
			add(off(x.Go), 2, "simrt.Go(func() {")
			add(off(x.End()), 0, " })")
		case *ast.RangeStmt:
			if mapRangeAt[path][off(x.X.Pos())] {
				add(off(x.X.Pos()), 0, "simrt.MapRange(")
				add(off(x.X.End()), 0, ")")
				nMapRanges++
			}
		case *ast.SelectorExpr:
			if id, ok := x.X.(*ast.Ident); ok && syncName != "" && id.Name == syncName && id.Obj == nil && simTypes[x.Sel.Name] {
				add(off(id.Pos()), len(id.Name), "simrt")
			}
		}
		return true
	}
	ast.Inspect(f, walk)
	// import + blank uses, on the package clause line so that line numbers are preserved
	add(off(f.Name.End()), 0, fmt.Sprintf("; import simrt %q", simrtImport))
	tail := "\nvar _ = simrt.Yield\n"
	if syncName != "" {
		tail += fmt.Sprintf("var _ %s.Locker\n", syncName)
	}
	add(len(src), 0, tail)

	sort.SliceStable(edits, func(i, j int) bool {
		if edits[i].off != edits[j].off {
			return edits[i].off < edits[j].off
		}
		return edits[i].seq < edits[j].seq
	})
	var out []byte
	pos := 0
	for _, e := range edits {
		if e.off < pos {
			return fmt.Errorf("overlapping edits at offset %d", e.off)
		}
		out = append(out, src[pos:e.off]...)
		out = append(out, e.text...)
		pos = e.off + e.del
	}
	out = append(out, src[pos:]...)
	// must still parse
	if _, err := parser.ParseFile(token.NewFileSet(), path, out, 0); err != nil {
		return fmt.Errorf("instrumented file does not parse: %w", err)
	}
	return os.WriteFile(path, out, 0o644)
}

func typeString(e ast.Expr) string {
	switch x := e.(type) {
	case *ast.StarExpr:
		return typeString(x.X)
	case *ast.Ident:
		return x.Name
	case *ast.IndexExpr:
		return typeString(x.X)
	case *ast.IndexListExpr:
		return typeString(x.X)
	}
	return "?"
}

// ---------------------------------------------------------------- map ranges (go/types)

// mapRangeAt[file][offset of the range expression] is true when that expression has map type.
var mapRangeAt = map[string]map[int]bool{}
var nMapRanges int
var typeCheckNote = "no range statements"

type modImporter struct {
	fset     *token.FileSet
	std      types.Importer
	modPath  string
	root     string
	byDir    map[string][]string // package dir -> files
	done     map[string]*types.Package
	errs     int
	requires map[string]string
}

func (m *modImporter) Import(path string) (*types.Package, error) {
	if path == m.modPath || strings.HasPrefix(path, m.modPath+"/") {
		dir := filepath.Join(m.root, strings.TrimPrefix(strings.TrimPrefix(path, m.modPath), "/"))
		return m.check(dir, path)
	}
	if first, _, _ := strings.Cut(path, "/"); strings.Contains(first, ".") {
		// a third-party module: type-check its sources from the module cache
		if dir := m.moduleDir(path); dir != "" {
			if _, ok := m.byDir[dir]; !ok {
				ents, _ := os.ReadDir(dir)
				for _, e := range ents {
					if n := e.Name(); strings.HasSuffix(n, ".go") && !strings.HasSuffix(n, "_test.go") {
						m.byDir[dir] = append(m.byDir[dir], filepath.Join(dir, n))
					}
				}
			}
			return m.check(dir, path)
		}
		return nil, fmt.Errorf("module of %s not found in the module cache", path)
	}
	return m.std.Import(path)
}

func escapeModPath(p string) string {
	var b strings.Builder
	for _, r := range p {
		if r >= 'A' && r <= 'Z' {
			b.WriteByte('!')
			b.WriteRune(r + 'a' - 'A')
		} else {
			b.WriteRune(r)
		}
	}
	return b.String()
}

// moduleDir maps an import path to its directory in the module cache using the versions
// required in the scratch copy's go.mod.
func (m *modImporter) moduleDir(path string) string {
	cache := os.Getenv("GOMODCACHE")
	if cache == "" {
		gp := os.Getenv("GOPATH")
		if gp == "" {
			home, _ := os.UserHomeDir()
			gp = filepath.Join(home, "go")
		}
		cache = filepath.Join(strings.Split(gp, string(os.PathListSeparator))[0], "pkg", "mod")
	}
	best, bestVer := "", ""
	for mod, ver := range m.requires {
		if (path == mod || strings.HasPrefix(path, mod+"/")) && len(mod) > len(best) {
			best, bestVer = mod, ver
		}
	}
	if best == "" {
		return ""
	}
	dir := filepath.Join(cache, escapeModPath(best)+"@"+bestVer, strings.TrimPrefix(strings.TrimPrefix(path, best), "/"))
	if st, err := os.Stat(dir); err != nil || !st.IsDir() {
		return ""
	}
	return dir
}

func (m *modImporter) check(dir, path string) (*types.Package, error) {
	if p, ok := m.done[dir]; ok {
		if p == nil {
			return nil, fmt.Errorf("import cycle or failed package %s", path)
		}
		return p, nil
	}
	m.done[dir] = nil
	var parsed []*ast.File
	for _, f := range m.byDir[dir] {
		af, err := parser.ParseFile(m.fset, f, nil, 0)
		if err != nil {
			return nil, err
		}
		parsed = append(parsed, af)
	}
	if len(parsed) == 0 {
		return nil, fmt.Errorf("no source files for %s", path)
	}
	info := &types.Info{Types: map[ast.Expr]types.TypeAndValue{}}
	conf := types.Config{Importer: m, Error: func(error) { m.errs++ }}
	pkg, _ := conf.Check(path, m.fset, parsed, info)
	for _, af := range parsed {
		fname := m.fset.Position(af.Pos()).Filename
		tf := m.fset.File(af.Pos())
		ast.Inspect(af, func(n ast.Node) bool {
			if rs, ok := n.(*ast.RangeStmt); ok {
				if tv, ok := info.Types[rs.X]; ok && tv.Type != nil {
					if _, isMap := tv.Type.Underlying().(*types.Map); isMap {
						if mapRangeAt[fname] == nil {
							mapRangeAt[fname] = map[int]bool{}
						}
						mapRangeAt[fname][tf.Offset(rs.X.Pos())] = true
					}
				}
			}
			return true
		})
	}
	m.done[dir] = pkg
	if pkg == nil {
		return nil, fmt.Errorf("type check of %s failed", path)
	}
	return pkg, nil
}

// findMapRanges type-checks the module's packages (standard library from source) and records
// which range statements iterate over maps.  Packages without any range statement are not
// checked.  A type-check problem is not fatal: the affected ranges stay as they are and the
// note says so (the determinism self-test and the replay confirmation still guard the result).
func findMapRanges(root string, files []string) {
	byDir := map[string][]string{}
	hasRange := map[string]bool{}
	for _, f := range files {
		d := filepath.Dir(f)
		byDir[d] = append(byDir[d], f)
		if b, err := os.ReadFile(f); err == nil && strings.Contains(string(b), "range") {
			hasRange[d] = true
		}
	}
	if len(hasRange) == 0 {
		return
	}
	modPath := ""
	requires := map[string]string{}
	if b, err := os.ReadFile(filepath.Join(root, "go.mod")); err == nil {
		for _, l := range strings.Split(string(b), "\n") {
			l = strings.TrimSpace(l)
			if strings.HasPrefix(l, "module ") {
				modPath = strings.TrimSpace(strings.TrimPrefix(l, "module "))
			}
			l = strings.TrimPrefix(l, "require ")
			if f := strings.Fields(l); len(f) >= 2 && strings.Contains(f[0], ".") && strings.HasPrefix(f[1], "v") {
				requires[f[0]] = f[1]
			}
		}
	}
	if modPath == "" {
		typeCheckNote = "go.mod unreadable: map ranges left to the runtime"
		return
	}
	fset := token.NewFileSet()
	m := &modImporter{fset: fset, std: importer.ForCompiler(fset, "source", nil), modPath: modPath, root: root, byDir: byDir, done: map[string]*types.Package{}, requires: requires}
	var dirs []string
	for d := range hasRange {
		dirs = append(dirs, d)
	}
	sort.Strings(dirs)
	failed := 0
	for _, d := range dirs {
		rel, _ := filepath.Rel(root, d)
		path := modPath
		if rel != "." {
			path = modPath + "/" + filepath.ToSlash(rel)
		}
		if _, err := m.check(d, path); err != nil {
			failed++
		}
	}
	typeCheckNote = fmt.Sprintf("%d packages type-checked, %d type errors, %d failed", len(dirs), m.errs, failed)
}
