#!/bin/bash
# tools/eval_refactor.sh <dir-with-patch.diff>   false-alarm test: applies a behaviour-PRESERVING change to a
# scratch worktree of /repo, confirms the repository's suite still passes, and runs every claimed
# check (quick tier, or TIER=thorough) against it.  Any VIOLATION or non-zero exit is a false alarm
# to investigate (or a defect in the supposedly correct change).
set -u
VERIF="$(cd "$(dirname "${BASH_SOURCE[0]}")/.." && pwd)"
D="$(cd "$1" && pwd)"; id=$(basename "$D")
TIER="${TIER:-quick}"
export GOFLAGS=-mod=mod GOPROXY=off
unset GOTOOLCHAIN GOSUMDB
WT=$(mktemp -d /tmp/rf-$id.XXXXXX); rmdir "$WT"; OUT=$(mktemp -d /tmp/rf-out-$id.XXXXXX)
cleanup() { git -C /repo worktree remove --force "$WT" >/dev/null 2>&1; rm -rf "$WT" "$OUT"; git -C /repo worktree prune; }
trap cleanup EXIT
git -C /repo worktree add -q --detach "$WT" HEAD || exit 2
git -C "$WT" apply "$D/patch.diff" || { echo "REFACTOR $id: patch does not apply"; exit 2; }
if (cd "$WT" && go build ./... && go test -vet=off -count=1 ./... ) >"$OUT/suite.log" 2>&1; then echo "REFACTOR $id: suite passes"; else echo "REFACTOR $id: suite FAILS"; tail -5 "$OUT/suite.log"; fi
(cd "$WT" && git checkout -q -- go.mod go.sum 2>/dev/null)
for c in ${CHECKS:-$(python3 -c "import json; print(' '.join(x['property_id'] for x in json.load(open('$VERIF/MANIFEST.json'))['checks']))")}; do
  VERIF_REPO="$WT" VERIF_OUT="$OUT" "$VERIF/check" "$c" "$TIER" >"$OUT/check-$c.log" 2>&1; rc=$?
  v=$(grep -m1 '^VIOLATION' "$OUT/check-$c.log")
  if [ $rc -ne 0 ] || [ -n "$v" ]; then
    echo "  check $c: exit=$rc ALARM"; grep -A3 "^violation class" "$OUT/check-$c.log" | head -8 | sed 's/^/      /'
    [ $rc -ge 2 ] && tail -5 "$OUT/check-$c.log" | sed 's/^/      /'
    [ -n "$v" ] && [ -n "${KEEP_REPLAY:-}" ] && cp "$(echo "$v" | sed 's/.*replay=//')" "$KEEP_REPLAY/$id-$c.replay.json"
  else echo "  check $c: silent"; fi
done
