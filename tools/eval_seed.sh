#!/bin/bash
# tools/eval_seed.sh <seed-dir> <demo-package-dir> [race] -- <check> [<check> ...]
#
# Confirms a seeded property-breaking change in a scratch worktree of /repo (never in /repo):
#   1. the demonstration passes on the unchanged tree,
#   2. the patch applies, the tree builds and the repository's whole test suite still passes,
#   3. the demonstration fails on the patched tree,
# then runs the named /verif checks (quick tier, or TIER=thorough) against the patched
# worktree and prints which of them report a VIOLATION.  The worktree is removed afterwards.
set -u
VERIF="$(cd "$(dirname "${BASH_SOURCE[0]}")/.." && pwd)"
SEED="$(cd "$1" && pwd)"; PKG="$2"; shift 2
RACE=""
if [ "${1:-}" = "race" ]; then RACE="-race"; shift; fi
[ "${1:-}" = "--" ] && shift
CHECKS=("$@")
TIER="${TIER:-quick}"
export GOFLAGS=-mod=mod GOPROXY=off
unset GOTOOLCHAIN GOSUMDB
id=$(basename "$SEED")
WT=$(mktemp -d /tmp/ev-$id.XXXXXX); rmdir "$WT"
OUT=$(mktemp -d /tmp/ev-out-$id.XXXXXX)
cleanup() { git -C /repo worktree remove --force "$WT" >/dev/null 2>&1; rm -rf "$WT" "$OUT"; git -C /repo worktree prune; }
trap cleanup EXIT
git -C /repo worktree add -q --detach "$WT" HEAD || { echo "EVAL $id: cannot create worktree"; exit 2; }
demo=$(ls "$SEED"/*_test.go 2>/dev/null | head -1)
res="EVAL $id:"
if [ -n "$demo" ]; then
  cp "$demo" "$WT/$PKG/zz_demo_test.go"
  if (cd "$WT" && go test $RACE -vet=off -count=1 "./$PKG/" >"$OUT/demo_clean.log" 2>&1); then res+=" demo-on-clean=pass"; else res+=" demo-on-clean=FAIL"; fi
  rm -f "$WT/$PKG/zz_demo_test.go"
else
  res+=" demo=none(test file)"
fi
if git -C "$WT" apply "$SEED/patch.diff" 2>"$OUT/apply.log"; then res+=" apply=ok"; else res+=" apply=FAIL"; echo "$res"; cat "$OUT/apply.log"; exit 2; fi
if (cd "$WT" && go build ./... >"$OUT/build.log" 2>&1 && go test -vet=off -count=1 ./... >"$OUT/suite.log" 2>&1); then res+=" suite-on-patched=pass"; else res+=" suite-on-patched=FAIL"; fi
if [ -n "$demo" ]; then
  cp "$demo" "$WT/$PKG/zz_demo_test.go"
  if (cd "$WT" && go test $RACE -vet=off -count=1 "./$PKG/" >"$OUT/demo_patched.log" 2>&1); then res+=" demo-on-patched=PASS(!)"; else res+=" demo-on-patched=fail"; fi
  rm -f "$WT/$PKG/zz_demo_test.go"
fi
(cd "$WT" && git checkout -q -- go.mod go.sum 2>/dev/null)
echo "$res"
for c in "${CHECKS[@]}"; do
  s=$(date +%s)
  VERIF_REPO="$WT" VERIF_OUT="$OUT" "$VERIF/check" "$c" "$TIER" >"$OUT/check-$c.log" 2>&1
  rc=$?
  v=$(grep -m1 '^VIOLATION' "$OUT/check-$c.log")
  cls=""
  if [ -n "$v" ]; then
    rp=$(echo "$v" | sed 's/.*replay=//')
    cls=$(python3 -c "import json,sys; r=json.load(open(sys.argv[1])); print((r.get('violation') or {}).get('sig') or r.get('fatal'))" "$rp" 2>/dev/null)
    [ -n "${KEEP_REPLAY:-}" ] && cp "$rp" "$KEEP_REPLAY/$id-$c.replay.json"
  fi
  echo "  check $c $TIER: exit=$rc $(( $(date +%s)-s ))s ${v:+VIOLATION $cls}"
  [ $rc -ge 2 ] && tail -5 "$OUT/check-$c.log" | sed 's/^/      /'
done
exit 0
