#!/bin/bash
# tools/intake_wave.sh <out-root> <property> <k> <letter> [extra checks...]
# Takes one change as a sub-agent left it (<out-root>/<property>/<k>/{patch.diff,zz_demo_test.go,notes.md}),
# stores it as seeded/<property>-<letter>/ with a preliminary meta.json, confirms it in a scratch
# worktree (tools/eval_seed.sh) and runs the property's own quick check plus the extra ones.
set -u
VERIF="$(cd "$(dirname "${BASH_SOURCE[0]}")/.." && pwd)"
root="$1"; prop="$2"; k="$3"; letter="$4"; shift 4
src="$root/$prop/$k"; dst="$VERIF/seeded/$prop-$letter"
[ -f "$src/patch.diff" ] && [ -f "$src/notes.md" ] || { echo "INTAKE $prop-$letter: incomplete ($src)"; exit 2; }
mkdir -p "$dst"
cp "$src/patch.diff" "$src/notes.md" "$dst/"
cp "$src"/zz_demo_test.go "$dst/" 2>/dev/null
pkg=$(sed -n '1s/^package: *//p' "$dst/notes.md" | tr -d '`\r ')
race=$(sed -n '2s/^race: *//p' "$dst/notes.md" | tr -d '`\r ')
racearg=""; raceb=false
case "$race" in yes*) racearg=race; raceb=true;; esac
python3 - "$dst/meta.json" "$prop" "$letter" "$pkg" "$raceb" <<'PY'
import json,sys,os
f,prop,letter,pkg,race=sys.argv[1:]
json.dump({"id":f"{prop}-{letter}","breaks_property":prop,"written_by":"independent sub-agent, "+os.environ.get("ROUND_DESC","ninth round (13 properties, three changes each; brief: realistic maintenance changes that need something specific to manifest)")+"","demo":"zz_demo_test.go","demo_package_dir":pkg,"demo_needs_race_or_repetition":race=="true","needs_to_manifest":"","expected_checks":[prop],"what_i_ran":f"tools/eval_seed.sh seeded/{prop}-{letter} {pkg} -- {prop}","result":""},open(f,"w"),indent=1)
PY
"$VERIF/tools/eval_seed.sh" "$dst" "$pkg" $racearg -- "$prop" "$@"
