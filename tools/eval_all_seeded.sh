#!/bin/bash
# tools/eval_all_seeded.sh [id-prefix]   re-confirm every seeded change under /verif/seeded and run its
# expected checks (meta.json: expected_checks) against it; prints one block per change and a
# final tally "caught N of M".  TIER=quick (default) or thorough.
VERIF="$(cd "$(dirname "${BASH_SOURCE[0]}")/.." && pwd)"
pre="${1:-}"
tot=0; ok=0
for d in "$VERIF"/seeded/${pre}*/; do
  id=$(basename "$d")
  pkg=$(python3 -c "import json,sys; print(json.load(open(sys.argv[1]))['demo_package_dir'])" "$d/meta.json")
  race=$(python3 -c "import json,sys; print('race' if json.load(open(sys.argv[1]))['demo_needs_race_or_repetition'] else '')" "$d/meta.json")
  checks=$(python3 -c "import json,sys; print(' '.join(json.load(open(sys.argv[1]))['expected_checks']))" "$d/meta.json")
  out=$("$VERIF/tools/eval_seed.sh" "$d" "$pkg" $race -- $checks 2>&1)
  echo "$out"
  tot=$((tot+1))
  if echo "$out" | grep -q "demo-on-clean=pass apply=ok suite-on-patched=pass demo-on-patched=fail" && ! echo "$out" | grep -E "check C[0-9]+ " | grep -qv "VIOLATION"; then ok=$((ok+1)); else echo "  ^^^ NOT FULLY AS EXPECTED"; fi
done
echo "seeded changes confirmed and caught by all their expected checks: $ok of $tot"
