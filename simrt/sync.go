package simrt

import (
	"sync"
)

// The sim sync types keep their own model of holders and waiters, so that "blocked" is a
// scheduler state and never a parked OS thread.  Only once the model says an acquisition
// succeeds is the real primitive inside taken as well: that is what gives the race detector
// exactly the happens-before edges the library's own locking creates (and no others).

// ---------------------------------------------------------------- Mutex

type Mutex struct {
	inner   sync.Mutex
	held    bool
	waiters []*Task
}

func (m *Mutex) Lock() {
	s := sched
	if s == nil || s.cur == nil {
		// no simulation: the caller is the only goroutine using the library, so a lock that is
		// already held can never be released — what a real process would do is hang forever
		if !m.tryModel() {
			panic(LibraryFatal{"all goroutines are asleep - deadlock! (Mutex.Lock on a mutex that was never unlocked)"})
		}
		m.inner.Lock()
		return
	}
	preemptPoint()
	for !m.tryModel() {
		m.enqueue(s)
		s.block("Mutex.Lock")
	}
	m.inner.Lock()
}

//go:norace
func (m *Mutex) setHeld(v bool) { m.held = v }

//go:norace
func (m *Mutex) tryModel() bool {
	if m.held {
		return false
	}
	m.held = true
	return true
}

//go:norace
func (m *Mutex) enqueue(s *Sched) { m.waiters = append(m.waiters, s.cur) }

func (m *Mutex) TryLock() bool {
	s := sched
	if s == nil || s.cur == nil {
		ok := m.inner.TryLock()
		if ok {
			m.setHeld(true)
		}
		return ok
	}
	preemptPoint()
	if !m.tryModel() {
		return false
	}
	m.inner.Lock()
	return true
}

func (m *Mutex) Unlock() {
	if !m.release() {
		panic(LibraryFatal{"sync: unlock of unlocked mutex"})
	}
	m.inner.Unlock()
	if s := sched; s != nil && s.cur != nil {
		m.wake(s)
		preemptPoint()
	}
}

//go:norace
func (m *Mutex) release() bool {
	if !m.held {
		return false
	}
	m.held = false
	return true
}

//go:norace
func (m *Mutex) wake(s *Sched) { s.wakeAll(&m.waiters) }

// ---------------------------------------------------------------- RWMutex

type RWMutex struct {
	inner   sync.RWMutex
	writer  bool
	readers int
	waiters []*Task
	wwait   int // writers currently waiting (probe only)
}

//go:norace
func (m *RWMutex) tryW() bool {
	if m.writer || m.readers > 0 {
		return false
	}
	m.writer = true
	return true
}

//go:norace
func (m *RWMutex) tryR(s *Sched) bool {
	if m.writer {
		return false
	}
	m.readers++
	if s != nil && m.wwait > 0 {
		s.ReaderOvertake++
	}
	return true
}

//go:norace
func (m *RWMutex) enqueue(s *Sched, w bool) {
	m.waiters = append(m.waiters, s.cur)
	if w {
		m.wwait++
	}
}

//go:norace
func (m *RWMutex) dequeueW() { m.wwait-- }

func (m *RWMutex) Lock() {
	s := sched
	if s == nil || s.cur == nil {
		if !m.tryW() {
			panic(LibraryFatal{"all goroutines are asleep - deadlock! (RWMutex.Lock on a lock that was never released)"})
		}
		m.inner.Lock()
		return
	}
	preemptPoint()
	for !m.tryW() {
		m.enqueue(s, true)
		s.block("RWMutex.Lock")
		m.dequeueW()
	}
	m.inner.Lock()
}

func (m *RWMutex) TryLock() bool {
	s := sched
	if s == nil || s.cur == nil {
		ok := m.inner.TryLock()
		if ok {
			m.tryW()
		}
		return ok
	}
	preemptPoint()
	if !m.tryW() {
		return false
	}
	m.inner.Lock()
	return true
}

func (m *RWMutex) Unlock() {
	if !m.relW() {
		panic(LibraryFatal{"sync: Unlock of unlocked RWMutex"})
	}
	m.inner.Unlock()
	if s := sched; s != nil && s.cur != nil {
		m.wake(s)
		preemptPoint()
	}
}

//go:norace
func (m *RWMutex) relW() bool {
	if !m.writer {
		return false
	}
	m.writer = false
	return true
}

//go:norace
func (m *RWMutex) relR() bool {
	if m.readers <= 0 {
		return false
	}
	m.readers--
	return true
}

//go:norace
func (m *RWMutex) wake(s *Sched) { s.wakeAll(&m.waiters) }

func (m *RWMutex) RLock() {
	s := sched
	if s == nil || s.cur == nil {
		if !m.tryR(nil) {
			panic(LibraryFatal{"all goroutines are asleep - deadlock! (RWMutex.RLock while a write lock was never released)"})
		}
		m.inner.RLock()
		return
	}
	preemptPoint()
	for !m.tryR(s) {
		m.enqueue(s, false)
		s.block("RWMutex.RLock")
	}
	m.inner.RLock()
}

func (m *RWMutex) TryRLock() bool {
	s := sched
	if s == nil || s.cur == nil {
		ok := m.inner.TryRLock()
		if ok {
			m.tryR(nil)
		}
		return ok
	}
	preemptPoint()
	if !m.tryR(s) {
		return false
	}
	m.inner.RLock()
	return true
}

func (m *RWMutex) RUnlock() {
	if !m.relR() {
		panic(LibraryFatal{"sync: RUnlock of unlocked RWMutex"})
	}
	m.inner.RUnlock()
	if s := sched; s != nil && s.cur != nil {
		m.wake(s)
		preemptPoint()
	}
}

type rlocker RWMutex

func (r *rlocker) Lock()   { (*RWMutex)(r).RLock() }
func (r *rlocker) Unlock() { (*RWMutex)(r).RUnlock() }

func (m *RWMutex) RLocker() sync.Locker { return (*rlocker)(m) }

// ---------------------------------------------------------------- Once

type Once struct {
	inner   sync.Once
	done    bool
	running bool
	waiters []*Task
}

//go:norace
func (o *Once) state() (done, running bool) { return o.done, o.running }

//go:norace
func (o *Once) setRunning(v bool) { o.running = v }

//go:norace
func (o *Once) finish(s *Sched) {
	o.done = true
	o.running = false
	if s != nil {
		s.wakeAll(&o.waiters)
	}
}

//go:norace
func (o *Once) enqueue(s *Sched) { o.waiters = append(o.waiters, s.cur) }

func (o *Once) Do(f func()) {
	s := sched
	if s == nil || s.cur == nil {
		o.inner.Do(func() {
			defer o.finish(nil)
			f()
		})
		return
	}
	preemptPoint()
	for {
		done, running := o.state()
		if done {
			o.inner.Do(func() {}) // acquire edge
			return
		}
		if !running {
			break
		}
		o.enqueue(s)
		s.block("Once.Do")
	}
	o.setRunning(true)
	o.inner.Do(func() {
		defer o.finish(s)
		f()
	})
	preemptPoint()
}

// ---------------------------------------------------------------- WaitGroup

type WaitGroup struct {
	inner   sync.WaitGroup
	n       int
	waiters []*Task
}

//go:norace
func (w *WaitGroup) add(d int) int { w.n += d; return w.n }

//go:norace
func (w *WaitGroup) count() int { return w.n }

//go:norace
func (w *WaitGroup) enqueue(s *Sched) { w.waiters = append(w.waiters, s.cur) }

//go:norace
func (w *WaitGroup) wake(s *Sched) { s.wakeAll(&w.waiters) }

func (w *WaitGroup) Add(d int) {
	n := w.add(d)
	if n < 0 {
		panic("sync: negative WaitGroup counter")
	}
	w.inner.Add(d)
	if s := sched; s != nil && s.cur != nil {
		if n == 0 {
			w.wake(s)
		}
		preemptPoint()
	}
}

func (w *WaitGroup) Done() { w.Add(-1) }

func (w *WaitGroup) Wait() {
	s := sched
	if s == nil || s.cur == nil {
		w.inner.Wait()
		return
	}
	preemptPoint()
	for w.count() > 0 {
		w.enqueue(s)
		s.block("WaitGroup.Wait")
	}
	w.inner.Wait()
}

// ---------------------------------------------------------------- Pool

// Pool hands back the most recently returned object (the most aggressive legal choice: a
// real sync.Pool may do exactly this, and it is the choice that exposes use-after-Put).
type Pool struct {
	New   func() any
	mu    sync.Mutex
	items []any
}

func (p *Pool) Get() any {
	if s := sched; s != nil && s.cur != nil {
		preemptPoint()
	}
	p.mu.Lock()
	var x any
	if n := len(p.items); n > 0 {
		x = p.items[n-1]
		p.items = p.items[:n-1]
	}
	p.mu.Unlock()
	if x == nil && p.New != nil {
		x = p.New()
	}
	return x
}

func (p *Pool) Put(x any) {
	if x == nil {
		return
	}
	p.mu.Lock()
	p.items = append(p.items, x)
	p.mu.Unlock()
	if s := sched; s != nil && s.cur != nil {
		preemptPoint()
	}
}
