package simrt

import (
	"fmt"
	"iter"
	"sort"
)

// Go randomises map iteration order in the runtime, where no seed reaches it.  A tree that
// ranges over a map in a deciding path would therefore make runs unrepeatable.  The
// instrumenter rewrites `range m` (m of map type) into `range simrt.MapRange(m)`, which visits
// the keys in an order this runtime owns: sorted by value, then permuted by a per-run seed that
// the harness draws from the run's tape (seed 0 = sorted order).
//
// Semantics kept from the language: an entry deleted before it is reached is not produced;
// an entry added during the iteration may be skipped (here: always is).

var mapSeed uint64

// SetMapSeed sets the per-run seed for map iteration orders (0 = sorted order).
//
//go:norace
func SetMapSeed(s uint64) { mapSeed = s }

//go:norace
func nextMapPerm() uint64 {
	if mapSeed == 0 {
		return 0
	}
	mapSeed += 0x9e3779b97f4a7c15
	z := mapSeed
	z = (z ^ (z >> 30)) * 0xbf58476d1ce4e5b9
	z = (z ^ (z >> 27)) * 0x94d049bb133111eb
	z ^= z >> 31
	if z == 0 {
		z = 1
	}
	return z
}

// MapRange iterates over m in a simulator-owned order.
func MapRange[M ~map[K]V, K comparable, V any](m M) iter.Seq2[K, V] {
	return func(yield func(K, V) bool) {
		keys := make([]K, 0, len(m))
		for k := range m {
			keys = append(keys, k)
		}
		orderKeys(keys)
		for _, k := range keys {
			v, ok := m[k]
			if !ok {
				continue
			}
			if !yield(k, v) {
				return
			}
		}
	}
}

func orderKeys[K comparable](keys []K) {
	if len(keys) < 2 {
		return
	}
	switch ks := any(keys).(type) {
	case []string:
		sort.Strings(ks)
	case []int:
		sort.Ints(ks)
	default:
		strs := make([]string, len(keys))
		for i, k := range keys {
			strs[i] = fmt.Sprintf("%T:%v", k, k)
		}
		sort.Sort(&byStr[K]{keys, strs})
	}
	if p := nextMapPerm(); p != 0 {
		for i := len(keys) - 1; i > 0; i-- {
			p = p*6364136223846793005 + 1442695040888963407
			j := int((p >> 33) % uint64(i+1))
			keys[i], keys[j] = keys[j], keys[i]
		}
	}
}

type byStr[K any] struct {
	keys []K
	strs []string
}

func (b *byStr[K]) Len() int           { return len(b.keys) }
func (b *byStr[K]) Less(i, j int) bool { return b.strs[i] < b.strs[j] }
func (b *byStr[K]) Swap(i, j int) {
	b.keys[i], b.keys[j] = b.keys[j], b.keys[i]
	b.strs[i], b.strs[j] = b.strs[j], b.strs[i]
}
