// Package simrt is the simulation runtime that the /verif instrumenter links into a
// scratch copy of fin-proto-go.  It is NOT part of the repository: the instrumenter copies
// this directory into <scratch>/repo/simrt and rewrites every non-test source file so that
//   - every statement is preceded by simrt.Yield(site)  (logical step clock + switch point)
//   - sync.Mutex / RWMutex / Once / Pool / WaitGroup become the simrt types below
//   - `go f(x)` becomes simrt.Go(func(){ f(x) })
//
// Discipline: exactly one task is runnable at any time; all hand-offs are explicit and
// decided by the chooser callbacks the harness installs (which draw from the run's tape),
// so a run is a pure function of the tape.  With no simulation active (package init, the
// sequential oracle phase, the repository's own tests on the instrumented copy) Yield only
// advances the step clock and the sync types fall through to the real ones.
package simrt

import (
	"fmt"
	"sync"
)

// ---------------------------------------------------------------- step clock / budget

// Steps is the logical clock: one tick per instrumented statement executed.
var Steps uint64

// limit is the absolute tick at which the running decode/encode is declared to be looping
// (0 = no budget).
var limit uint64
var budgetBlown bool

// BudgetExceeded is the panic value raised by Yield when the tick budget is exhausted.
type BudgetExceeded struct{ Limit uint64 }

func (b BudgetExceeded) Error() string {
	return fmt.Sprintf("simrt: tick budget %d exhausted", b.Limit)
}

// SetBudget arms a budget of n ticks from now (n==0 disarms).
//
//go:norace
func SetBudget(n uint64) {
	budgetBlown = false
	if n == 0 {
		limit = 0
		return
	}
	limit = Steps + n
}

// BudgetBlown reports whether the budget fired since SetBudget (even if library code
// recovered the panic).
//
//go:norace
func BudgetBlown() bool { return budgetBlown }

//go:norace
func Now() uint64 { return Steps }

// SiteHits, when non-nil, counts executions per site (coverage probe).
var SiteHits []uint32

// ---------------------------------------------------------------- scheduler

type taskState uint8

const (
	tsRunnable taskState = iota
	tsBlocked
	tsDone
)

// Task is one simulated goroutine.
type Task struct {
	ID      int
	Name    string
	fn      func()
	wake    chan struct{}
	state   taskState
	waitOn  string // description of what it is blocked on
	Panic   any    // non-nil if fn panicked (value)
	Stack   []byte
	started bool
}

// Switch is one context switch, for the rendered schedule.
type Switch struct {
	Tick uint64
	From int
	To   int
	Site uint32
	Why  string
}

// Sched is a simulation in progress.
type Sched struct {
	tasks          []*Task
	cur            *Task
	gap            int64           // yields until the next preemption point (<0: never)
	NextGap        func() int64    // draws the next gap (ticks until next preemption); <0 = never again
	Pick           func(n int) int // picks among n runnable tasks
	finished       chan string     // "" = all done, otherwise deadlock description
	wg             sync.WaitGroup
	Switches       []Switch
	Seq            uint64 // global event sequence (invoke/return stamps)
	MaxSwitchLog   int
	NSwitches      uint64
	NPreempt       uint64 // switches that happened inside a task (preemption or blocking), not at task exit
	Contended      uint64 // lock acquisitions that had to block
	ReaderOvertake uint64
	lastSite       uint32
}

var sched *Sched

// Active reports whether a simulation is running.
//
//go:norace
func Active() bool { return sched != nil }

// NewSched creates a simulation.  nextGap and pick supply every scheduling decision.
func NewSched(nextGap func() int64, pick func(n int) int) *Sched {
	return &Sched{NextGap: nextGap, Pick: pick, finished: make(chan string, 1), MaxSwitchLog: 4096}
}

// Spawn registers a task before Run.
func (s *Sched) Spawn(name string, fn func()) *Task {
	t := &Task{ID: len(s.tasks), Name: name, fn: fn, wake: make(chan struct{})}
	s.tasks = append(s.tasks, t)
	return t
}

// Tasks returns the tasks (read after Run).
func (s *Sched) Tasks() []*Task { return s.tasks }

// Stamp returns the next global event sequence number.
//
//go:norace
func Stamp() uint64 {
	if sched == nil {
		return 0
	}
	sched.Seq++
	return sched.Seq
}

// CurrentTask returns the running task id or -1.
//
//go:norace
func CurrentTask() int {
	if sched == nil || sched.cur == nil {
		return -1
	}
	return sched.cur.ID
}

// Run executes the simulation to completion.  It returns "" when every task finished, or a
// description of the deadlock (tasks left blocked).  Tasks that are still blocked at a
// deadlock are leaked; the caller is expected to end the process soon after.
func (s *Sched) Run() (deadlock string) {
	if sched != nil {
		panic("simrt: nested simulation")
	}
	if len(s.tasks) == 0 {
		return ""
	}
	for _, t := range s.tasks {
		s.wg.Add(1)
		t.started = true
		go s.taskMain(t)
	}
	s.begin()
	res := <-s.finished
	if res == "" {
		s.wg.Wait() // normal synchronisation: task-local results become visible to the caller
	}
	s.end()
	return res
}

//go:norace
func (s *Sched) begin() {
	sched = s
	s.gap = s.NextGap()
	first := s.tasks[s.pickRunnable()]
	s.cur = first
	handoffSend(first.wake)
}

//go:norace
func (s *Sched) end() { sched = nil }

func (s *Sched) taskMain(t *Task) {
	handoffRecv(t.wake)
	func() {
		defer func() {
			if r := recover(); r != nil {
				t.Panic = r
				t.Stack = stack()
			}
		}()
		t.fn()
	}()
	s.wg.Done()
	s.exit(t)
}

//go:norace
func (s *Sched) exit(t *Task) {
	t.state = tsDone
	s.dispatchFrom(t, "exit")
}

// pickRunnable returns the index (into s.tasks) of the task to run next, or -1.
//
//go:norace
func (s *Sched) pickRunnable() int {
	n := 0
	for _, t := range s.tasks {
		if t.state == tsRunnable {
			n++
		}
	}
	if n == 0 {
		return -1
	}
	k := 0
	if n > 1 {
		k = s.Pick(n)
		if k < 0 || k >= n {
			k = 0
		}
	}
	for i, t := range s.tasks {
		if t.state == tsRunnable {
			if k == 0 {
				return i
			}
			k--
		}
	}
	return -1
}

// dispatchFrom hands the processor from t (which is blocked, done or preempted) to the
// next task chosen by the scheduler, and — unless t is done — parks t until it is chosen.
//
//go:norace
func (s *Sched) dispatchFrom(t *Task, why string) {
	i := s.pickRunnable()
	if i < 0 {
		// nobody can run
		alldone := true
		desc := ""
		for _, x := range s.tasks {
			if x.state != tsDone {
				alldone = false
				desc += fmt.Sprintf("task %d (%s) blocked on %s; ", x.ID, x.Name, x.waitOn)
			}
		}
		if alldone {
			s.cur = nil
			s.finished <- ""
			return
		}
		s.cur = nil
		s.finished <- "deadlock: " + desc
		if t.state != tsDone {
			handoffRecv(t.wake) // park forever
		}
		return
	}
	next := s.tasks[i]
	if next == t {
		return
	}
	s.NSwitches++
	if why != "exit" {
		s.NPreempt++
	}
	if len(s.Switches) < s.MaxSwitchLog {
		s.Switches = append(s.Switches, Switch{Tick: Steps, From: t.ID, To: next.ID, Site: s.lastSite, Why: why})
	}
	s.cur = next
	handoffSend(next.wake)
	if t.state != tsDone {
		handoffRecv(t.wake)
	}
}

// Yield is called before every instrumented statement.
//
//go:norace
func Yield(site uint32) {
	Steps++
	if SiteHits != nil && int(site) < len(SiteHits) {
		SiteHits[site]++
	}
	if limit != 0 && Steps > limit {
		budgetBlown = true
		panic(BudgetExceeded{limit})
	}
	s := sched
	if s == nil || s.cur == nil {
		return
	}
	s.lastSite = site
	if s.gap < 0 {
		return
	}
	if s.gap > 0 {
		s.gap--
		return
	}
	s.gap = s.NextGap()
	s.dispatchFrom(s.cur, "preempt")
}

// preemptPoint is a Yield without a site, used by the sim sync types.
//
//go:norace
func preemptPoint() {
	Yield(0)
}

// block parks the current task until another task makes it runnable again.
//
//go:norace
func (s *Sched) block(on string) {
	t := s.cur
	t.state = tsBlocked
	t.waitOn = on
	s.Contended++
	s.dispatchFrom(t, "block:"+on)
}

//go:norace
func (s *Sched) wakeAll(ws *[]*Task) {
	for _, t := range *ws {
		if t.state == tsBlocked {
			t.state = tsRunnable
			t.waitOn = ""
		}
	}
	*ws = (*ws)[:0]
}

// Go starts a new simulated task (or a real goroutine when no simulation is active).
func Go(fn func()) {
	s := sched
	if s == nil || s.cur == nil {
		go fn()
		return
	}
	s.spawnLive(fn)
	preemptPoint()
}

//go:norace
func (s *Sched) spawnLive(fn func()) {
	t := &Task{ID: len(s.tasks), Name: "go", fn: fn, wake: make(chan struct{})}
	s.tasks = append(s.tasks, t)
	s.wg.Add(1)
	go s.taskMain(t)
}

// LibraryFatal is raised (as a panic) where the real runtime would throw an unrecoverable
// fatal error, e.g. unlock of an unlocked mutex.
type LibraryFatal struct{ Msg string }

func (l LibraryFatal) Error() string { return "fatal error: " + l.Msg }
