//go:build !race

package simrt

const RaceEnabled = false

func handoffSend(c chan struct{}) { c <- struct{}{} }
func handoffRecv(c chan struct{}) { <-c }
