package simrt

import "runtime/debug"

func stack() []byte { return debug.Stack() }
