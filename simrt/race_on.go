//go:build race

package simrt

import "runtime"

const RaceEnabled = true

// Hand-offs between tasks must not create happens-before edges in the race detector's
// view (otherwise the serialising scheduler would hide every race): they happen with the
// detector's synchronisation tracking disabled on both sides.

//go:norace
func handoffSend(c chan struct{}) {
	runtime.RaceDisable()
	c <- struct{}{}
	runtime.RaceEnable()
}

//go:norace
func handoffRecv(c chan struct{}) {
	runtime.RaceDisable()
	<-c
	runtime.RaceEnable()
}
